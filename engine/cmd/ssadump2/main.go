package main

import (
	"fmt"
	"os"

	"golang.org/x/tools/go/packages"
	"golang.org/x/tools/go/ssa"
	"golang.org/x/tools/go/ssa/ssautil"
)

func main() {
	cfg := &packages.Config{Mode: packages.LoadAllSyntax, Dir: "/repo", BuildFlags: []string{"-tags=verif"}}
	pkgs, err := packages.Load(cfg, ".", "./format")
	if err != nil {
		panic(err)
	}
	prog, spkgs := ssautil.AllPackages(pkgs, ssa.NaiveForm|ssa.GlobalDebug)
	prog.Build()
	want := map[string]bool{}
	for _, a := range os.Args[1:] {
		want[a] = true
	}
	for _, sp := range spkgs {
		for fn := range ssautil.AllFunctions(prog) {
			if fn.Pkg != sp {
				continue
			}
			if want[fn.Name()] || want[fn.String()] {
				fn.WriteTo(os.Stdout)
				fmt.Println()
			}
		}
	}
}
