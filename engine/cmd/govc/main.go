package main

import (
	"flag"
	"fmt"
	"os"
	"runtime"
	"runtime/pprof"
	"sort"
	"strings"
	"time"
)

func usage() {
	fmt.Fprintln(os.Stderr, `usage:
  govc verify [-repo DIR] [-f FUNC[,FUNC...]] [-v] [-timeout 10s]   verify functions under contract
  govc loops  [-repo DIR] -f FUNC                                  list loops and their ordinals
  govc survey [-repo DIR]                                          which functions are inside the subset
  govc check  --property Cxx --tier quick|thorough                 property check (MANIFEST interface)
  govc replay FILE                                                 re-run a recorded counterexample`)
	os.Exit(2)
}

func main() {
	if len(os.Args) < 2 {
		usage()
	}
	defer cleanupScratch()
	switch os.Args[1] {
	case "verify":
		if pf := os.Getenv("GOVC_CPUPROFILE"); pf != "" {
			f, _ := os.Create(pf)
			pprof.StartCPUProfile(f)
			code := cmdVerify(os.Args[2:])
			pprof.StopCPUProfile()
			f.Close()
			os.Exit(code)
		}
		os.Exit(cmdVerify(os.Args[2:]))
	case "loops":
		os.Exit(cmdLoops(os.Args[2:]))
	case "survey":
		os.Exit(cmdSurvey(os.Args[2:]))
	case "check":
		code := cmdCheck(os.Args[2:])
		cleanupScratch()
		os.Exit(code)
	case "replay":
		code := cmdReplay(os.Args[2:])
		cleanupScratch()
		os.Exit(code)
	case "frame":
		p, err := loadProgram("/repo", nil)
		if err != nil {
			fmt.Fprintln(os.Stderr, err)
			os.Exit(2)
		}
		n := 0
		for _, s := range p.frameCheckGroups(nil) {
			fmt.Printf("%-45s functions=%d writes=%d violations=%d\n", s.Entry, s.Functions, s.Writes, len(s.Viol))
			for _, v := range s.Viol {
				fmt.Printf("    %s  %s  [%s]\n", v.Name, v.Desc, v.Pos)
				n++
			}
		}
		if n > 0 {
			os.Exit(1)
		}
		os.Exit(0)
	case "funcs":
		// list function keys with source positions (for closures, whose keys are ordinal)
		p, err := loadProgram("/repo", nil)
		if err != nil {
			fmt.Fprintln(os.Stderr, err)
			os.Exit(2)
		}
		for _, fn := range p.allFuncs {
			fmt.Printf("%-60s %s\n", p.funcKeys[fn], p.posStr(fn.Pos()))
		}
		os.Exit(0)
	case "selftest":
		code := cmdSelftest(os.Args[2:])
		cleanupScratch()
		os.Exit(code)
	default:
		usage()
	}
}

func defaultOpts() verifyOpts {
	return verifyOpts{timeout: 10 * time.Second, depth: 2, pathCap: 6000, workers: runtime.NumCPU()}
}

func cmdVerify(args []string) int {
	fs := flag.NewFlagSet("verify", flag.ExitOnError)
	repo := fs.String("repo", "/repo", "repository")
	funcs := fs.String("f", "", "comma-separated function keys (default: all with contracts)")
	verbose := fs.Bool("v", false, "verbose")
	timeout := fs.Duration("timeout", 10*time.Second, "per-VC timeout")
	keep := fs.Bool("keep", false, "keep SMT files")
	dump := fs.String("dump", "", "dump the failing VC of this obligation name (substring)")
	lemmasOnly := fs.Bool("lemmas", false, "verify the lemmas only")
	fs.Parse(args)
	keepSMT = *keep
	p, err := loadProgram(*repo, nil)
	if err != nil {
		fmt.Fprintln(os.Stderr, "load:", err)
		return 2
	}
	opts := defaultOpts()
	opts.timeout = *timeout
	var keys []string
	if *funcs != "" {
		for _, f := range strings.Split(*funcs, ",") {
			f = strings.TrimSpace(f)
			if _, ok := p.funcs[f]; !ok {
				if _, ok2 := p.funcs["commonmark."+f]; ok2 {
					f = "commonmark." + f
				} else {
					fmt.Fprintln(os.Stderr, "unknown function", f)
					return 2
				}
			}
			keys = append(keys, f)
		}
	} else {
		keys = append(keys, p.contracts.Order...)
	}
	bad := 0
	start := time.Now()
	// lemmas first
	if *lemmasOnly {
		keys = nil
	}
	if *funcs == "" || *lemmasOnly {
		for _, lr := range p.verifyLemmas(opts) {
			printOblResult(lr, *verbose, *dump)
			if lr.Status != "discharged" {
				bad++
			}
		}
	}
	for _, k := range keys {
		fn := p.funcs[k]
		fc := p.contracts.Funcs[k]
		if why, gone := p.unbound[k]; gone || fn == nil {
			fmt.Printf("%-50s NOT-VERIFIED function not found: %s\n", k, why)
			bad++
			continue
		}
		if fc != nil && fc.Trusted != "" {
			fmt.Printf("%-50s TRUSTED (%s)\n", k, fc.Trusted)
			continue
		}
		if fc != nil && fc.Inline {
			continue
		}
		t0 := time.Now()
		fr := p.verifyFunc(fn, fc, opts)
		if fr.Err != nil {
			fmt.Printf("%-50s NOT-VERIFIED %v\n", k, fr.Err)
			bad++
			continue
		}
		ok, fail := 0, 0
		for _, o := range fr.Obls {
			if o.Status == "discharged" {
				ok++
			} else {
				fail++
			}
		}
		fmt.Printf("%-50s paths=%d obligations=%d discharged=%d failed=%d covers=%d vacuous=%d  %.1fs\n", k, fr.Paths, len(fr.Obls), ok, fail, fr.Covers, len(fr.CoverBad), time.Since(t0).Seconds())
		for _, cb := range fr.CoverBad {
			fmt.Printf("    VACUOUS %s\n", cb)
			bad++
		}
		for _, o := range fr.Obls {
			if o.Status != "discharged" && fc != nil {
				class := oblClass(o.Name)
				unc := false
				for uc := range fc.Unclaimed {
					if class == uc || strings.HasPrefix(class, uc+":") || strings.HasPrefix(class, uc+"#") {
						unc = true
					}
				}
				if unc {
					if *verbose {
						fmt.Printf("    UNCLAIMED   %s (%s)\n", o.Name, o.Status)
					}
					continue
				}
			}
			if o.Status != "discharged" {
				bad++
			}
			printOblResult(o, *verbose, *dump)
		}
	}
	fmt.Printf("total %.1fs, problems=%d\n", time.Since(start).Seconds(), bad)
	if bad > 0 {
		return 1
	}
	return 0
}

func printOblResult(o *OblResult, verbose bool, dump string) {
	if o.Status == "discharged" && !verbose {
		return
	}
	fmt.Printf("    %-11s %s (%d VCs, %s, %.2fs) %s %s\n", strings.ToUpper(o.Status), o.Name, o.VCs, o.Solver, o.Time, o.Pos, o.Desc)
	if o.Status != "discharged" {
		fmt.Printf("        solver said: %s (%s)\n", o.FailRes.Status, o.FailRes.Solver)
		for _, f := range o.FailedVCs {
			fmt.Printf("          %s\n", f)
		}
	}
	if dump != "" && strings.Contains(o.Name, dump) && o.Failing != nil {
		fmt.Println("---- failing VC ----")
		for _, a := range o.Failing.Assumes {
			fmt.Println("  assume", a)
		}
		fmt.Println("  goal  ", o.Failing.Goal)
		if o.exec != nil {
			raw := &Query{Name: o.Name, Assumes: o.Failing.Assumes, Goal: o.Failing.Goal}
			os.WriteFile("/tmp/raw-vc.smt2", []byte(raw.smtlib(false, "z3")), 0o644)
			q := o.exec.buildQueryM(o.Failing, 2, 6, true)
			os.WriteFile("/tmp/qf-vc.smt2", []byte(q.smtlib(true, "z3")), 0o644)
			q2 := o.exec.buildQueryR(o.Failing, 2, 1)
			os.WriteFile("/tmp/full-vc.smt2", []byte(q2.smtlib(false, "z3")), 0o644)
		}
	}
}

func cmdLoops(args []string) int {
	fs := flag.NewFlagSet("loops", flag.ExitOnError)
	repo := fs.String("repo", "/repo", "repository")
	funcs := fs.String("f", "", "function key")
	fs.Parse(args)
	p, err := loadProgram(*repo, nil)
	if err != nil {
		fmt.Fprintln(os.Stderr, "load:", err)
		return 2
	}
	for _, f := range strings.Split(*funcs, ",") {
		if _, ok := p.funcs[f]; !ok {
			f = "commonmark." + f
		}
		fn := p.funcs[f]
		if fn == nil {
			fmt.Println("unknown", f)
			continue
		}
		x := p.newExec(fn, p.contracts.Funcs[f], defaultOpts())
		func() {
			defer func() {
				if r := recover(); r != nil {
					fmt.Println("  error:", r)
				}
			}()
			x.analyzeEscapes()
			x.analyzeLoops()
		}()
		var ls []*loopInfo
		for _, li := range x.loops {
			ls = append(ls, li)
		}
		sort.Slice(ls, func(i, j int) bool { return ls[i].ordinal < ls[j].ordinal })
		fmt.Printf("%s: %d loops\n", f, len(ls))
		for _, li := range ls {
			var cells []string
			for a, paths := range li.modCells {
				cells = append(cells, fmt.Sprintf("%s%v", a.Comment, paths))
			}
			sort.Strings(cells)
			var hk []string
			for k := range li.modHeap {
				hk = append(hk, k)
			}
			sort.Strings(hk)
			fmt.Printf("  loop %d: line %d head=block %d (%s) range=%v cells=%v heap=%v all=%v\n", li.ordinal, li.line, li.head.Index, li.head.Comment, li.isRange, cells, hk, li.modAll)
		}
	}
	return 0
}

func cmdSurvey(args []string) int {
	fs := flag.NewFlagSet("survey", flag.ExitOnError)
	repo := fs.String("repo", "/repo", "repository")
	discharge := fs.Bool("discharge", false, "also discharge the generated safety obligations")
	fs.Parse(args)
	p, err := loadProgram(*repo, nil)
	if err != nil {
		fmt.Fprintln(os.Stderr, "load:", err)
		return 2
	}
	opts := defaultOpts()
	opts.timeout = 5 * time.Second
	in, out := 0, 0
	for _, fn := range p.allFuncs {
		k := p.funcKeys[fn]
		fc := p.contracts.Funcs[k]
		if *discharge {
			fr := p.verifyFunc(fn, fc, opts)
			if fr.Err != nil {
				fmt.Printf("OUT  %-55s %v\n", k, fr.Err)
				out++
				continue
			}
			okc, bad := 0, 0
			var names []string
			for _, o := range fr.Obls {
				if o.Status == "discharged" {
					okc++
				} else {
					bad++
					names = append(names, o.Name+"@"+o.Pos+"="+o.FailRes.Status)
				}
			}
			fmt.Printf("IN   %-55s paths=%d obls=%d ok=%d bad=%d %v\n", k, fr.Paths, len(fr.Obls), okc, bad, names)
			in++
			continue
		}
		x := p.newExec(fn, fc, opts)
		x.verifyFunction()
		if x.err != nil {
			fmt.Printf("OUT  %-55s %v\n", k, x.err)
			out++
		} else {
			fmt.Printf("IN   %-55s paths=%d vcs=%d\n", k, x.paths, len(x.obls))
			in++
		}
	}
	fmt.Printf("inside subset: %d, outside: %d\n", in, out)
	return 0
}
