package main

// Symbolic values and the memory model (Burstall/Bornat: one SMT array per
// struct field leaf; slices are (array id, offset, len, cap) into per-element-
// type backing-store heaps).

import (
	"fmt"
	"go/types"
	"strings"

	"golang.org/x/tools/go/ssa"
)

type Kind int

const (
	KInt Kind = iota
	KBool
	KSeq    // slice or string: Id/Off/Len/Cap (or Arr/Off/Len inside spec bodies)
	KStruct // Fields
	KRef    // pointer / interface / map / chan / opaque: T is an Int
	KFunc   // function value: static Fn+Bind, or opaque T
	KTuple  // multiple results
	KArr    // only inside spec language: not used for Go arrays (they live in element heaps)
)

type SV struct {
	K      Kind
	T      *Term
	Id     *Term
	Arr    *Term // resolved array (spec-level sequences); when set Id is ignored
	Off    *Term
	Len    *Term
	Cap    *Term
	Fields []SV
	Ty     types.Type
	Loc    *Loc
	Fn     *ssa.Function
	Bind   []SV
	Dyn    *SV // interface values built by MakeInterface: the concrete value
}

type Step struct {
	Field int   // struct field index, or -1
	Index *Term // array index when Field == -1
}

type Loc struct {
	Alloc  *ssa.Alloc  // base: local cell
	Global *ssa.Global // base: package-level variable
	Ref    *Term       // base: heap object of type RefTy
	RefTy  types.Type
	Slice  *SV // base: element Index of a backing store
	Index  *Term
	ElemTy types.Type
	Str    bool  // the backing store is immutable string storage
	Path   []int // struct field indices below the base
}

func (l *Loc) withField(i int) *Loc {
	n := *l
	n.Path = append(append([]int{}, l.Path...), i)
	return &n
}

func intSV(t *Term, ty types.Type) SV { return SV{K: KInt, T: t, Ty: ty} }
func boolSV(t *Term) SV               { return SV{K: KBool, T: t, Ty: types.Typ[types.Bool]} }
func refSV(t *Term, ty types.Type) SV { return SV{K: KRef, T: t, Ty: ty} }

// MaxLen is the bound assumed on every slice/string length and capacity:
// 2^48, the runtime's maxAlloc on 64-bit platforms.
var MaxLenTerm = BigC(bigPow2(48))

// typeKind classifies a Go type for the memory model.
func typeKind(t types.Type) Kind {
	switch u := t.Underlying().(type) {
	case *types.Basic:
		switch {
		case u.Info()&types.IsBoolean != 0:
			return KBool
		case u.Info()&types.IsString != 0:
			return KSeq
		case u.Info()&types.IsInteger != 0:
			return KInt
		case u.Kind() == types.UnsafePointer:
			return KRef
		case u.Kind() == types.UntypedNil:
			return KRef
		}
		return KRef
	case *types.Slice:
		return KSeq
	case *types.Struct:
		return KStruct
	case *types.Pointer, *types.Interface, *types.Map, *types.Chan:
		return KRef
	case *types.Signature:
		return KFunc
	case *types.Tuple:
		return KTuple
	case *types.Array:
		return KRef // arrays are backing stores: the value is the array id
	}
	return KRef
}

// intRange returns the value range of an integer type.
func intRange(t types.Type) (lo, hi *Term, ok bool) {
	b, isb := t.Underlying().(*types.Basic)
	if !isb || b.Info()&types.IsInteger == 0 {
		return nil, nil, false
	}
	switch b.Kind() {
	case types.Int8:
		return IntC(-128), IntC(127), true
	case types.Int16:
		return IntC(-32768), IntC(32767), true
	case types.Int32:
		return IntC(-2147483648), IntC(2147483647), true
	case types.Int, types.Int64, types.UntypedInt, types.UntypedRune:
		return BigC(bigNegPow2(63)), BigC(bigPow2m1(63)), true
	case types.Uint8:
		return IntC(0), IntC(255), true
	case types.Uint16:
		return IntC(0), IntC(65535), true
	case types.Uint32:
		return IntC(0), IntC(4294967295), true
	case types.Uint, types.Uint64, types.Uintptr:
		return IntC(0), BigC(bigPow2m1(64)), true
	}
	return nil, nil, false
}

func intBits(t types.Type) (bits int, signed bool) {
	b, isb := t.Underlying().(*types.Basic)
	if !isb {
		return 64, true
	}
	switch b.Kind() {
	case types.Int8:
		return 8, true
	case types.Int16:
		return 16, true
	case types.Int32:
		return 32, true
	case types.Int, types.Int64, types.UntypedInt, types.UntypedRune:
		return 64, true
	case types.Uint8:
		return 8, false
	case types.Uint16:
		return 16, false
	case types.Uint32:
		return 32, false
	case types.Uint, types.Uint64, types.Uintptr:
		return 64, false
	}
	return 64, true
}

// leafKey builds heap keys.
func typeName(t types.Type) string {
	s := types.TypeString(t, func(p *types.Package) string { return p.Name() })
	return s
}

func elemTypeOf(t types.Type) types.Type {
	switch u := t.Underlying().(type) {
	case *types.Slice:
		return u.Elem()
	case *types.Array:
		return u.Elem()
	case *types.Basic:
		if u.Info()&types.IsString != 0 {
			return types.Typ[types.Byte]
		}
	case *types.Pointer:
		if a, ok := u.Elem().Underlying().(*types.Array); ok {
			return a.Elem()
		}
	}
	return nil
}

// elemKey: heap key for elements of type t (scalars); byte-like types share one heap.
func elemKeyBase(t types.Type) string {
	if b, ok := t.Underlying().(*types.Basic); ok && (b.Kind() == types.Uint8) {
		return "E:byte"
	}
	return "E:" + typeName(t)
}

// leaf describes one scalar leaf of a type: path suffix and sort.
type leaf struct {
	suffix string
	sort   Sort // SInt or SBool
	ty     types.Type
	path   []int
	part   string // "", "id", "off", "len", "cap" for sequence leaves
}

func leavesOf(t types.Type) []leaf {
	var out []leaf
	var rec func(t types.Type, suffix string, path []int)
	rec = func(t types.Type, suffix string, path []int) {
		switch typeKind(t) {
		case KBool:
			out = append(out, leaf{suffix, SBool, t, append([]int{}, path...), ""})
		case KInt, KRef, KFunc:
			out = append(out, leaf{suffix, SInt, t, append([]int{}, path...), ""})
		case KSeq:
			for _, p := range []string{"id", "off", "len", "cap"} {
				out = append(out, leaf{suffix + "#" + p, SInt, t, append([]int{}, path...), p})
			}
		case KStruct:
			st := t.Underlying().(*types.Struct)
			for i := 0; i < st.NumFields(); i++ {
				rec(st.Field(i).Type(), suffix+"."+st.Field(i).Name(), append(path, i))
			}
		default:
			panic("leavesOf: unsupported " + t.String())
		}
	}
	rec(t, "", nil)
	return out
}

func (s SV) String() string {
	switch s.K {
	case KInt, KBool, KRef:
		if s.T == nil {
			if s.Loc != nil {
				return "<loc>"
			}
			return "<nil-term>"
		}
		return s.T.String()
	case KSeq:
		if s.Arr != nil {
			return fmt.Sprintf("seq(arr=%s,off=%s,len=%s)", s.Arr, s.Off, s.Len)
		}
		return fmt.Sprintf("seq(id=%s,off=%s,len=%s,cap=%s)", s.Id, s.Off, s.Len, s.Cap)
	case KStruct, KTuple:
		var fs []string
		for _, f := range s.Fields {
			fs = append(fs, f.String())
		}
		return "{" + strings.Join(fs, ", ") + "}"
	case KFunc:
		if s.Fn != nil {
			return "func:" + s.Fn.Name()
		}
		return "func:?"
	}
	return "?"
}
