package main

// What each claimed property's check decides and what it does not (reported
// verbatim in the evidence; see DESIGN.md section 7).

type clauseInfo struct {
	decided    []string
	notDecided []string
}

var propertyClauses = map[string]clauseInfo{
	"C15": {
		decided: []string{
			"ATX heading: level and content range equal the section 4.2 definition for every line (content end under the precondition that no space/tab follows an odd run of backslashes; the complementary case is a known finding)",
			"thematic break: accepted exactly when the line is three or more matching - _ * with optional spaces/tabs; end = one past the last marker",
			"setext underline: level 1/2 exactly for = / - runs followed by spaces/tabs only",
			"code fence: length, fence character and trimmed info-string range equal the section 4.5 definition; backtick fences reject backticks in the info string",
			"list marker: bullet / 1-9 digits + . or ), followed by space, tab or end of line; number is the decimal value",
			"ASCII punctuation, hex digit, space/tab/line-ending, control, letter, digit classification for all 256 bytes",
			"Unicode whitespace and punctuation classifiers relative to unicode.Is/unicode.In (assumed dependency)",
			"URI normalisation: output alphabet is RFC 3986 reserved/unreserved characters and %HH escapes; a well-formed string is returned unchanged (hence idempotent)",
			"e-mail recognition (parseEmail at full length, IsEmailAddress) equals the section 6.5 regular expression",
		},
		notDecided: []string{
			"parseAutolink (absolute-URI autolinks) is not yet under a functional contract",
			"the recognisers are proved under LineShape (at most one line ending, at the end); that every caller passes such a line is not proved here",
		},
	},
	"C04": {
		decided: []string{
			"for each function listed under functions_under_contract: no index/slice out of range, no nil dereference, no reachable panic, no division by zero, no int overflow, and every loop has a discharged variant (range loops by construction) — except the classes a contract marks nosafety/unclaimed with its stated assumption (listed under not_decided)",
			"the explicit panics guarding cursor arithmetic: Advance's \"index out of bounds\" / \"negative length\" and ConsumeIndent's \"consumed past end of indent\" are unreachable under their contracts (Advance: 0 <= n <= bytes left; ConsumeIndent: n at most the columns Indent() reports, proved with the tab-stop arithmetic), and those preconditions are discharged at every call in the fenced-code, ATX-heading and list-item block starts and in CollectInline",
			"Parse: NextBlock can only return nil or the latched io.EOF, so panic(err) is unreachable; readline/padNulls/makeRoot index arithmetic",
		},
		notDecided: []string{
			"functions of the two packages that are not under contract (the block-structure and inline tree-building code, the renderer's pre/post functions, the formatter)",
			"termination of Walk and of traversals driven by it relies on the tree being finite and acyclic",
			"the error clause (only end-of-input / no error on healthy reader and writer)",
		},
	},
	"C19": {
		decided: []string{
			"no function reachable from Parse, NewBlockParser, NextBlock, Rewrite, Extract, Render, AppendBlock, RenderHTML, Format or Walk writes a package-level variable",
			"no function reachable from Render/AppendBlock/RenderHTML/Format/Walk writes memory reachable from the tree, the renderer value or Source (only fresh memory, the caller's dst, or the caller's writer)",
			"no map iteration and no goroutine in the reachable functions (determinism side conditions)",
		},
		notDecided: []string{
			"data-race freedom and result equality are derived from the frame conditions by the argument of DESIGN 7.19, not checked dynamically",
		},
	},
	"C10": {
		decided: []string{
			"element per block kind: preBlock/postBlock emit exactly the documented start/end tag for paragraph (nothing inside a tight list), thematic break, ATX/setext heading by level, block quote, list item, bullet/ordered list, and nothing for link reference definitions and list markers (preBlock returns false for them); HTML blocks are descended into exactly when IgnoreRaw is off",
			"the language class of a code block is the escaped first word (strings.Fields) of the info string's text; the start attribute is the list item number",
			"every piece appended by the four emission functions is a fixed literal, escaped accessor text, digits, node text licensed by the node invariant, or raw HTML under !IgnoreRaw, and the output is only ever extended (shared with C07); tag emitters and appendAltText have exact contracts; filterRaw as in C17",
			"Render: one Write per block, in order, the buffer handed to AppendBlock is empty for the first block and a blank line afterwards and AppendBlock is given blocks[i]; it stops at the first write error and reports an error exactly then",
			"frame: nothing reachable from Render/AppendBlock/RenderHTML writes the renderer value, the blocks, the trees or Source, or a package-level variable; no map iteration or goroutine (determinism side conditions)",
		},
		notDecided: []string{
			"AppendBlock's own contract (result = dst followed by bytes that depend only on renderer and block) is assumed: its body hands library closures to Walk, which the Walk contract does not cover",
			"inline kinds: link/image attribute assembly, soft-break behaviours, autolinks are covered by the vocabulary obligations only, not by an exact per-kind emission equation",
			"composition of the per-node emissions into the whole output (lemma L-C10) and that the node accessors return what an independent reading would",
		},
	},
	"C11": {
		decided: []string{
			"emphasisFlags equals the left/right-flanking, can-open and can-close definitions of section 6.2 as a function of the characters around the run",
			"isEmphasisDelimiterMatch equals rules 9 and 10 of section 6.2 over the original run lengths, for all operands",
			"openersBottomIndex equals the bucket function Bucket(delimiter, can-open, length mod 3) and stays inside the bounds array; lemma BucketMatch: for a potential closer c, match(o, c) <==> MatchB(o, Bucket(c)) (and the harness verifBucketLemma over the real functions)",
			"processEmphasis, loop invariant INV: for every bucket k no element of the stack between stack_bottom and openersBottom[k] can match a closer of bucket k — established at entry, preserved when a bound is raised after a failed search, and preserved under every deletion from the stack (deleteDelimiterStack's shift contract, bounds clamped to the opener); hence a search that gives up at the cached bound has the result of the unbounded search of the specification",
			"processEmphasis, at every wrap: the opener is the nearest element below the closer that matches it (rules 9/10 included), the closer is a '*'/'_' element with the closer flag, and strong emphasis is produced exactly when both delimiter nodes still have two characters (the spans have just been shortened by 2, else by 1)",
			"deleteDelimiterStack: elements below i keep their place, elements from j on move down by j-i, same backing array",
			"processEmphasis consumes exactly the delimiters above stack_bottom and leaves the ones below unchanged",
			"parseDelimiterRun: the element pushed for a delimiter run has the text node of the maximal run of that character (inside the text run), n = its length, typ = its character, and is active; the elements already on the stack are kept",
		},
		notDecided: []string{
			"that the can-open / can-close bits of the pushed element are emphasisFlags of exactly that run: a postcondition saying so verified, but so did a deliberately wrong variant (next character taken one byte after the start of the run), so the clause was withdrawn rather than claimed (DESIGN 11.7)",
			"that the closer loop visits closers in stack order without skipping one (the inner scan is not given a two-state contract), and termination of the closer loop (it depends on the lengths of the delimiter nodes)",
			"that wrap/remove build the tree the abstract algorithm prescribes (tree surgery is abstracted; the bounded stand-in of C13/C02 checks the resulting spans on small inputs)",
		},
	},
	"C01": {
		decided: []string{
			"BOUNDED (not a proof; see coverage.bounded; stands in for A-C01-1/A-C01-2): order, gaps, Source, StartLine, aliasing and non-mutation of the root blocks on every input up to the stated bound",
			"padNulls: every byte at index k >= start moves to k + 2*(number of NULs in [start,k)), each NUL becomes three zero bytes, the prefix is kept; without a NUL the result is the argument and no byte of any array is written; when the result does not fit the capacity it is a fresh array (so the caller's buffer is not written)",
			"readline: the bytes already buffered are never changed; once an error is latched the buffer is not touched at all",
			"makeRoot: Source is the first n bytes of the buffer (same array, capacity clipped), StartLine/StartOffset are the parser's counters, EndOffset = StartOffset + unpadded length of those bytes, and the counters advance by exactly that range (line count of the bytes, unpadded length)",
			"NextBlock: every run of bytes cut off inside the blank-line loop is space/tab/CR/LF only and one line long; the block handed out starts exactly (unpadded length, line endings) of all bytes cut after the parser's previous position; EndOffset >= StartOffset and the parser's offset equals EndOffset afterwards, so ranges of successive blocks are ordered and do not overlap",
			"Parse / NewBlockParser: the line counter starts at 1 and the offset at 0; in Parse end-of-input is latched from the start, so the buffer is never refilled or rewritten",
			"lineCount, nullCount, unpaddedNullLength, isBlankLine: exact contracts",
			"fillNulls: in a buffer whose zero bytes come in complete aligned triples, the zero at index k becomes byte (number of zeros before k) mod 3 of EF BF BD and every non-zero byte is kept (lemma ZTriples_back by induction)",
		},
		notDecided: []string{
			"assumption A-C01-1: a closed top-level block ends inside the scanned part of the buffer at a line boundary (set by the block-structure code, which is abstracted in NextBlock)",
			"assumption A-C01-2: when the last pending block is handed out, the rest of the line in progress is blank (the first cut of NextBlock drops it unexamined)",
			"that the buffer handed to fillNulls has its zero bytes in complete aligned triples (ZTriples: follows from padNulls' image postcondition and the cuts at line boundaries) is not proved; fillNulls' functional contract is conditional on it, so 'Source equals the input with NUL replaced by U+FFFD' is decided per function, not end to end",
			"the composition over a whole document (a ghost model of the input stream relating every block to absolute offsets) is argued from the per-call contracts, not generated",
		},
	},
	"C08": {
		decided: []string{
			"readline: where a line ends is a function of the buffered bytes alone (LF; CRLF; CR followed by an available non-LF byte; CR or end of data only when end-of-input is latched), hence independent of how the reader chunks the stream",
			"readline: the reader is called only while no error is latched and through the parser's own reader; the latched error is never overwritten; bytes received are appended after the bytes already buffered, which are never changed; new bytes go through padNulls from the old length (incremental padding)",
			"NextBlock: returns (nil, the latched error) exactly when readline reports no more data, and a non-nil block with a nil error otherwise; the latch is preserved",
			"padNulls, makeRoot, NextBlock accounting: as for C01 (offsets and line numbers are the same function of the bytes in both modes)",
			"Parse constructs the state NewBlockParser would reach after reading everything: same counters, end-of-input latched",
		},
		notDecided: []string{
			"equality of the trees built in both modes is argued (lemma L-C08: everything outside readline reads only the buffer prefix, the pending blocks and the counters, and is deterministic), not generated",
			"the streaming block-size limit (\"block too large\") is outside the property's quantifier",
			"termination needs a reader that does not return (0, nil) forever",
		},
	},
	"C12": {
		decided: []string{
			"BOUNDED (not a proof; see coverage.bounded): every reference-style link or image names a key of the returned map, and (outside containers) its reference is the normal form of its label, on every input up to the stated bound",
			"Extract never replaces an existing entry (the map update is reached only for a key that is absent), never stores the empty label, and stores under the label node's normalised reference; MatchReference is key presence",
			"Extract examines blocks in document order: explicit-stack step contract (each iteration pops the top, leaves the rest of the stack unchanged, pushes the children of a non-definition block in reverse) plus the code-independent lemma L-DFS; hence among competing definitions inside one root block the first in source order is the one stored",
			"label normalisation returns the Unicode case fold (assumed dependency golang.org/x/text/cases) of the collapsed text stripped of ' ' only, on every path, exactly once; Unicode whitespace other than space/tab/line ending is not stripped",
		},
		notDecided: []string{
			"that the text handed to the fold is the label's text with runs of space/tab/line ending collapsed to one space (the collapse loop runs over the inline reader, which is abstracted here)",
			"parseEndBracket: that a reference-style link or image is created only after MatchReference returned true for its normalised label (tree-building code, not under contract)",
			"Parse: every Extract precedes every Rewrite (two-pass) — visible in the code of Parse, whose loop is under contract only for the parser state",
			"recognition of definitions (onCloseParagraph) is not under contract",
		},
	},
	"C13": {
		decided: []string{
			"BOUNDED (not a proof; see coverage.bounded): the shape of every construct listed in the statement (emphasis, code span, link/image, autolink, raw HTML tag, character reference, hard break, list marker, ATX, setext, fence, block quote) on the finished trees of every input up to the stated bound",
			"processEmphasis: strong emphasis is produced exactly when both delimiter nodes still have two characters after the shortening just done, emphasis otherwise (site obligation at wrap) — so an emphasis node's delimiters are taken from the runs and never from the text beyond them",
			"character reference nodes select &name; / &#D{1,7}; / &#xH{1,6}; (parseCharacterEscape's postcondition carried to the node created in parse)",
			"autolink nodes select <...> and have exactly one text child spanning the inside; soft line break nodes select \\n, \\r or \\r\\n; hard line break nodes select a backslash, or two or more spaces followed only by spaces and line-ending characters (parseHardLineBreakSpace, parseBackslash)",
			"these shapes are obligations at every addToRoot call of the tokeniser (parse, parseBackslash), for every path through the scanning loop",
			"recognisers whose results become block attributes: list marker = bullet or 1-9 digits + . or ) (parseListMarker), ATX level = length of the # run (parseATXHeading), fence = 3+ equal fence characters (parseCodeFence), setext underline (parseSetextHeadingUnderline): exact contracts (shared with C15)",
			"block spans start on their syntax: at the call that opens a fenced code block the line cursor stands on a run of at least three fence characters of the recorded character and length; at the call that opens an ATX heading it stands on level '#' characters; the list-marker block is opened on the first byte of the marker (a bullet, or 1-9 digits followed by . or )) and closed after exactly the marker's bytes — proved over the contracts of the real cursor methods (Indent, BytesAfterIndent, ConsumeIndent, Advance)",
			"raw HTML tags: parseHTMLTag (with parseHTMLOpenTag, parseHTMLClosingTag, parseHTMLTagName, parseHTMLAttribute, skipLinkSpace under it) returns the null span or a span that starts at the reader's position on '<', ends right after a '>' inside the source and is not empty - for comments, processing instructions, declarations, CDATA sections, open and closing tags, across node boundaries of the inline byte reader",
			"link labels: parseLinkLabel returns null spans or a span '[' ... ']' starting at the reader's position whose inner span is a non-empty range strictly after the '[' and inside the label; link titles start on their opening delimiter and their text span is the span minus one byte on each side; a pointy destination starts on '<'",
		},
		notDecided: []string{
			"emphasis / strong (processEmphasis, wrap), code spans (parseCodeSpan over the inline reader), links and images as a whole (parseEndBracket): the functions that build these nodes are abstracted in parse and not under contract",
			"raw HTML and link labels: the scanners are under contract (see decided), but the call sites that turn their result into a node (parseRawHTML / parseEndBracket inside parse) are abstracted, and the reader well-formedness RdOK (nodes non-nil, inside the source, in source order, indent nodes blank) is assumed where a reader is constructed",
			"setext heading ends in its underline: that block start is not under contract (the fence, ATX, list-marker and block-quote starts are: see decided)",
			"span validity inside parse (cursor within the unparsed run) is assumed (A-C02-1)",
		},
	},
	"C20": {
		decided: []string{
			"(*formatWriter).s, writeStrings, writeTrimmedIndent: no write through the caller's writer is attempted after one has failed; the error reported is the first one; with an error already latched s performs no write at all and keeps the error (ghost state failed/firstErr/calls, obligations at every write site)",
			"structural: every write of package format goes through these functions, the sticky error is assigned only in s, and Format returns it",
			"frame: nothing reachable from Format writes memory reachable from the blocks (tree and Source untouched) or a package-level variable; no map iteration or goroutine (same bytes every time)",
			"push/pop keep the indent stack consistent (pop requires a non-empty stack)",
		},
		notDecided: []string{
			"the second sentence (formatted text of a canonical document re-parses to the same HTML and is a fixed point): a whole-pipeline relation, not expressible as a contract (DESIGN 8)",
			"totality of preBlock/postBlock/visitInline/postInline on a healthy writer (index safety of Child(0..2) etc.) is not under contract",
			"that pop is only called with a non-empty stack follows from the Walk discipline (Post follows a Pre that pushed); not generated",
		},
	},
	"C02": {
		decided: []string{
			"character boundaries, for valid UTF-8 input: the spans of the nodes the tokeniser creates directly (character references, autolinks and their text child, soft and hard line breaks, and the text nodes made by parseBackslash) begin and end on character boundaries — obligations at every addToRoot call, for every path",
			"an autolink's text child lies inside the autolink's span",
			"a root block's span ends at len(Source) (makeRoot)",
			"spanEnd: under A-C02-1 the end of the text run being tokenised never passes the end of the container whose inline children are being built, also after the cursor has moved past the last unparsed node (failed on the pinned tree: the trailing text node ran to len(Source); fixed: a560e6b)",
			"BOUNDED (not a proof; see coverage.bounded): all C02 clauses on the finished trees of every input up to the stated bound, evaluated on the real Parse",
			"the inline byte reader (next, current, currentNode, remainingNodeBytes) over nodes that are non-nil, inside the source and in source order never moves backwards, stays within the source, and lands only on node starts when it jumps; on top of it the HTML tag, link label, link destination and link title scanners return either null spans or valid ranges of the source that start at the reader's position (non-empty except a bare destination), with the inner/text span inside the outer one for labels",
		},
		notDecided: []string{
			"validity (0 <= Start <= End <= len(Source)), nesting and sibling order in general: they need the cursor invariant of parse across the abstracted tree-building calls (A-C02-1) and contracts on wrap / processEmphasis / parseEndBracket / the block-structure code",
			"boundaries of plain-text nodes whose end is the end of the unparsed run, and of nodes built by the abstracted functions",
			"\"preceded only by spaces/tabs\" for the root span start",
		},
	},
	"C03": {
		decided: []string{
			"ATX heading content is exactly the section 4.2 raw contents (parseATXHeading, shared with C15; one open known finding)",
			"inside the tokeniser, a node created for a construct (character reference, autolink, soft/hard line break) starts exactly where the plain-text node added just before it ended, so no byte is lost or covered twice around these constructs",
			"spanEnd stays inside the container (shared with C02): the trailing text node of a block cannot cover the lines that follow it",
			"BOUNDED (not a proof; see coverage.bounded): no byte under two leaves, every letter/digit/non-ASCII byte under exactly one leaf, on every input up to the stated bound (found the missing cursor advance after a full reference link with a multi-line label; fixed: 8fdfd7e)",
		},
		notDecided: []string{
			"tiling of a whole unparsed run across loop iterations and across the abstracted calls (delimiter runs, brackets, code spans, raw HTML), the multi-line cursor jumps, collectTextNodes / collectCodeSpan, list markers and block-level text collection (addLineText)",
		},
	},
	"C05": {
		decided: []string{
			"lookForLinkOrImage: a ']' is paired with the nearest '[' / '![' opener on the delimiter stack and only if that opener is still active; an inactive opener is dropped and nothing is paired — together with finishLink: a '[' that precedes a completed link can never become a link itself (the tree-level consequence 'no link contains a link' is decided only by the bounded stand-in)",
			"finishLink (link-in-link deactivation): after a link has been formed every '[' opener still on the delimiter stack below it has lost its active flag (image openers keep theirs), the opener and everything above it are consumed, and the other elements keep their identity; it uses processEmphasis's contract (the delimiters below stack_bottom are untouched, the ones above are consumed)",
			"BOUNDED (not a proof; see coverage.bounded): the whole node grammar and the accessor clauses of the statement (list/item/marker, definition children, phrasing-only paragraphs and headings, code/HTML block children, link/image tails, no link in a link, no unparsed node) on the finished trees of every input up to the stated bound",
			"accessors agree with the shape: HeadingLevel is the stored level for ATX/setext headings and 0 elsewhere; IsOrderedList/IsTightList are functions of the delimiter / looseness fields; ListItemNumber is -1 or 0..999999999; LinkDestination/LinkTitle return a child of that kind among the last two children, or nil; InfoString is the first inline child of a fenced block when it has that kind",
			"heading levels handed to the tree are 1-6 for ATX headings (parseATXHeading's level) and 1-2 for setext headings, at the call sites of the block-start closures",
			"a list item is opened together with its list marker (the marker block is opened immediately after the item, before any input is consumed, and closed after exactly the marker's bytes), so the marker is the item's first child; list and item carry the marker's delimiter; ordered numbers come from parseListMarker (0..999999999)",
			"no unparsed node remains, as far as: hasUnparsed reports an unparsed child at any position, and no addToRoot call of the tokeniser adds an unparsed or kind-less node",
		},
		notDecided: []string{
			"which block kinds may contain which (openBlock / blockRules canContain), lists contain only items, list/item agreement on tightness (ListKind.onClose): the block-structure code is not under contract",
			"link reference definition children (label, destination, optional title) from onCloseParagraph; link/image child layout and \"no link contains a link\" (parseEndBracket, finishLink)",
			"Rewrite visits every block that hasUnparsed (its stack holds a pointer into the RootBlock value, which the memory model does not support)",
		},
	},
	"C07": {
		decided: []string{
			"escapeHTML: the appended region contains none of < > \" ' and every & in it starts one of the five entities it emits (all inputs, unbounded)",
			"in preBlock/postBlock/preInline/postInline the output field is only ever extended (site:store), and every piece appended is a literal of the renderer's fixed vocabulary, escaped text (escapeHTML / html.EscapeString), the digits of a list start number, the text of a character reference or soft break (shape from the node invariant), or raw HTML guarded by !IgnoreRaw (site:append vocabulary obligations)",
			"openTagAttr/openTag/closeTag emit <name, <name>, </name> (or the &lt; variants under a predicate) with name the atom's name, and nothing else",
			"appendAltText appends exactly one attribute  alt=\"...\" whose value is escaped, for every tree",
			"NormalizeURI's output alphabet (RFC 3986 characters and %HH escapes); isHex = [0-9A-Fa-f]",
		},
		notDecided: []string{
			"the node invariant the renderer relies on (valid spans, character-reference and soft-break shapes, non-nil children: assumption A-NODEINV) is assumed here; it is the subject of C02/C05/C13",
			"proper nesting of the emitted tags follows from the pre/post pairing per node kind and the Walk discipline (C18); the pairing table itself is not generated as an obligation",
			"html.EscapeString, strconv.AppendInt and x/net/html/atom are assumed dependencies",
		},
	},
	"C17": {
		decided: []string{
			"filterRaw (clause 1): the bytes appended are the input with some '<' replaced by \"&lt;\" — every append copies the next unaccounted run of the input or emits \"&lt;\" for one '<', and the whole input is accounted for at the end (ghost coverage counter, lemma L-tiling)",
			"filterRaw (O1): a '<' is escaped exactly when the predicate was asked about the maximal, lower-cased tag name that follows it and rejected it; every '<' met in copy state that does not open a comment, CDATA section or declaration is put to the predicate",
			"filterRaw (O2-O5, two-state loop obligations on the scanner's own state variable): a '<' followed by neither a letter nor '/', '!', '?' is text and nothing after it is skipped (O2); after any other '<' in copy state that does not open a comment, CDATA section or declaration the scanner is back in copy state no later than right after the first '>' (O5); a comment ends at '-->' or '--!>' and at once when its text starts with '>' or '->' (O3); CDATA and declarations end at the first '>' (O4); inside a skipped construct the scanner examines every byte. These failed on the pinned tree for '<3 <script>', '<!-->', '<![CDATA[ > ...' (fixed: 8f27adc)",
			"openTagAttr/openTag: the renderer's own start tags are put to the predicate with the atom's name and escaped exactly when it rejects; closeTag emits the tag with or without its '<' escaped",
			"htmlTagNameEnd, maybeLower, toLowerASCII: exact contracts; FilterTagGFM rejects exactly the nine raw-text element names",
			"O6: no string the emission functions (preBlock, postBlock, preInline, postInline, appendAltText) append themselves contains '<' — the renderer's own tags reach the output through openTagAttr/openTag/closeTag only; failed on the pinned tree for the literal \"<br>\\n\" of hard line breaks (fixed: ff06885)",
		},
		notDecided: []string{
			"the tokenizer lemma L-C17 (DESIGN 7.17: O1-O5 imply that an HTML tokenizer reading the output sees no rejected start tag) is a paper proof over the WHATWG data-state rules, not machine-checked; O2-O5 are the per-iteration facts about the real scanner it needs",
			"attribute values: after a tag the scanner resumes at the first '>' even inside a quoted attribute value, which is earlier than the tokenizer (the safe direction); that the tokenizer cannot then be inside a tag where the filter sees text is part of L-C17",
		},
	},
	"C18": {
		decided: []string{
			"every call through a child-count / child function value uses opts.ChildCount / opts.Child when non-nil and the defaults otherwise",
			"Pre is called only on frames not yet expanded and Post only on post frames, each with the callback stored in opts; the cursor handed to a callback equals the cursor of the frame just popped",
			"at every callback the cursor is the root cursor (zero parent, negative index) or satisfies Child(Parent(), Index()) == Node() with 0 <= Index() < ChildCount(Parent()), for the child functions in force",
			"step contract of the explicit stack (two-state loop obligations): each iteration pops the top frame and leaves the rest of the stack unchanged; exactly one callback is made when the one for the frame's phase is configured; a post frame pushes nothing; a pre frame whose Pre returned false pushes nothing (pruning); otherwise the post frame of the node is pushed followed by the frames of its children n-1..0 with index, parent, node = Child(node, i) and block = the node itself if it is a block, else the frame's block (nearest enclosing block); a false Post leaves the loop at once (abort)",
			"with the code-independent lemma L-DFS (DESIGN appendix C) the step contract is: Pre in document order, descent exactly when Pre returned true, Post after the children, each reachable node once",
			"Walk writes nothing reachable from its arguments (frame)",
		},
		notDecided: []string{
			"lemma L-DFS itself (a statement about stack machines, independent of /repo) is a paper proof, not machine-checked",
			"termination relies on the tree being finite and acyclic",
		},
	},
}
