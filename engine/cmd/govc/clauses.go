package main

// What each claimed property's check decides and what it does not (reported
// verbatim in the evidence; see DESIGN.md section 7).

type clauseInfo struct {
	decided    []string
	notDecided []string
}

var propertyClauses = map[string]clauseInfo{
	"C15": {
		decided: []string{
			"ATX heading: level and content range equal the section 4.2 definition for every line (content end under the precondition that no space/tab follows an odd run of backslashes; the complementary case is a known finding)",
			"thematic break: accepted exactly when the line is three or more matching - _ * with optional spaces/tabs; end = one past the last marker",
			"setext underline: level 1/2 exactly for = / - runs followed by spaces/tabs only",
			"code fence: length, fence character and trimmed info-string range equal the section 4.5 definition; backtick fences reject backticks in the info string",
			"list marker: bullet / 1-9 digits + . or ), followed by space, tab or end of line; number is the decimal value",
			"ASCII punctuation, hex digit, space/tab/line-ending, control, letter, digit classification for all 256 bytes",
			"Unicode whitespace and punctuation classifiers relative to unicode.Is/unicode.In (assumed dependency)",
			"URI normalisation: output alphabet is RFC 3986 reserved/unreserved characters and %HH escapes; a well-formed string is returned unchanged (hence idempotent)",
			"e-mail recognition (parseEmail at full length, IsEmailAddress) equals the section 6.5 regular expression",
		},
		notDecided: []string{
			"parseAutolink (absolute-URI autolinks) is not yet under a functional contract",
			"the recognisers are proved under LineShape (at most one line ending, at the end); that every caller passes such a line is not proved here",
		},
	},
	"C04": {
		decided: []string{
			"for each function listed under functions_under_contract: no index/slice out of range, no nil dereference, no reachable panic, no division by zero, no int overflow, and every loop has a discharged variant (range loops by construction)",
		},
		notDecided: []string{
			"functions of the two packages that are not under contract (the block-structure and inline tree-building code, the renderer's pre/post functions, the formatter)",
			"termination of Walk and of traversals driven by it relies on the tree being finite and acyclic",
			"the error clause (only end-of-input / no error on healthy reader and writer)",
		},
	},
	"C19": {
		decided: []string{
			"no function reachable from Parse, NewBlockParser, NextBlock, Rewrite, Extract, Render, AppendBlock, RenderHTML, Format or Walk writes a package-level variable",
			"no function reachable from Render/AppendBlock/RenderHTML/Format/Walk writes memory reachable from the tree, the renderer value or Source (only fresh memory, the caller's dst, or the caller's writer)",
			"no map iteration and no goroutine in the reachable functions (determinism side conditions)",
		},
		notDecided: []string{
			"data-race freedom and result equality are derived from the frame conditions by the argument of DESIGN 7.19, not checked dynamically",
		},
	},
	"C11": {
		decided: []string{
			"isEmphasisDelimiterMatch equals rules 9 and 10 of section 6.2 over the original run lengths, for all operands",
			"soundness condition of processEmphasis's search-bound cache: whether an opener matches a closer depends on the closer only through openersBottomIndex (proved over the real functions through a verif-tagged harness)",
			"openersBottomIndex stays inside the bounds array",
		},
		notDecided: []string{
			"left/right-flanking and can-open/can-close computation (emphasisFlags) is not yet under a functional contract",
			"that processEmphasis keeps its search bounds valid under deletions, selects closers/openers as the procedure prescribes, and that wrap/remove build the corresponding tree",
		},
	},
	"C18": {
		decided: []string{
			"every call through a child-count / child function value uses opts.ChildCount / opts.Child when non-nil and the defaults otherwise",
			"Pre is called only on frames not yet expanded and Post only on post frames, each with the callback stored in opts",
			"the cursor handed to a callback equals the cursor of the frame just popped",
			"at every callback the cursor is the root cursor (zero parent, negative index) or satisfies Child(Parent(), Index()) == Node() with 0 <= Index() < ChildCount(Parent()), for the child functions in force",
			"Walk writes nothing reachable from its arguments (frame)",
		},
		notDecided: []string{
			"document order, exactly-once, pruning and abort (step contract + lemma L-DFS of DESIGN 7.18) are not generated",
			"ParentBlock() is the nearest enclosing block",
		},
	},
}
