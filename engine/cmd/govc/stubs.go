package main

func cmdSelftest(args []string) int { return 2 }
