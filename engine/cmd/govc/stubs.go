package main

func cmdCheck(args []string) int    { return 2 }
func cmdReplay(args []string) int   { return 2 }
func cmdSelftest(args []string) int { return 2 }
