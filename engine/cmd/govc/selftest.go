package main

// Must-fail / must-pass corpus (DESIGN 2.7).  Each entry is a textual edit of
// one source file of /repo, applied through packages.Config.Overlay (no copy
// of the repository is made).  A must-fail entry has to make at least one of
// the named obligations fail; a must-pass entry has to leave every obligation
// of the named function discharged.

import (
	"encoding/json"
	"flag"
	"fmt"
	"os"
	"path/filepath"
	"sort"
	"strings"
	"sync"
	"time"
)

type SelftestEntry struct {
	Name     string   `json:"name"`
	Kind     string   `json:"kind"` // "mustfail" | "mustpass"
	Property []string `json:"properties"`
	File     string   `json:"file"` // relative to /repo
	Old      string   `json:"old"`
	New      string   `json:"new"`
	Edits    []struct {
		File string `json:"file"`
		Old  string `json:"old"`
		New  string `json:"new"`
	} `json:"edits,omitempty"`
	Functions []string `json:"functions"`        // functions to re-verify
	Expect    []string `json:"expect"`           // obligation names (prefix match); empty: any obligation of the functions
	ReplaceAll bool    `json:"replace_all,omitempty"` // replace every occurrence of old (for renames)
	Engine    string   `json:"engine,omitempty"` // "" = contracts; "frame" = frame checker
	Note      string   `json:"note,omitempty"`
}

type selftestResult struct {
	Name   string
	Kind   string
	OK     bool
	Detail string
}

func loadSelftests() []SelftestEntry {
	var out []SelftestEntry
	for _, kind := range []string{"mustfail", "mustpass"} {
		files, _ := filepath.Glob(filepath.Join(verifDir, "selftest", kind, "*.json"))
		sort.Strings(files)
		for _, f := range files {
			data, err := os.ReadFile(f)
			if err != nil {
				continue
			}
			var e SelftestEntry
			if err := json.Unmarshal(data, &e); err != nil {
				fmt.Fprintf(os.Stderr, "selftest %s: %v\n", f, err)
				continue
			}
			e.Kind = kind
			if e.Name == "" {
				e.Name = strings.TrimSuffix(filepath.Base(f), ".json")
			}
			out = append(out, e)
		}
	}
	return out
}

func (e *SelftestEntry) overlay(repo string) (map[string][]byte, error) {
	ov := map[string][]byte{}
	type ed struct{ file, old, new string }
	var eds []ed
	if e.File != "" {
		eds = append(eds, ed{e.File, e.Old, e.New})
	}
	for _, x := range e.Edits {
		eds = append(eds, ed{x.File, x.Old, x.New})
	}
	for _, d := range eds {
		path := filepath.Join(repo, d.file)
		cur, ok := ov[path]
		if !ok {
			b, err := os.ReadFile(path)
			if err != nil {
				return nil, err
			}
			cur = b
		}
		if n := strings.Count(string(cur), d.old); n != 1 {
			if !(e.ReplaceAll && n > 1) {
				return nil, fmt.Errorf("edit anchor occurs %d times in %s (the corpus entry no longer applies to this tree)", n, d.file)
			}
		}
		n := 1
		if e.ReplaceAll {
			n = -1
		}
		ov[path] = []byte(strings.Replace(string(cur), d.old, d.new, n))
	}
	return ov, nil
}

func runSelftestEntry(e SelftestEntry, repo string, opts verifyOpts) selftestResult {
	res := selftestResult{Name: e.Name, Kind: e.Kind}
	ov, err := e.overlay(repo)
	if err != nil {
		res.Detail = "stale: " + err.Error()
		res.OK = false
		return res
	}
	p, err := loadProgram(repo, ov)
	if err != nil {
		res.Detail = "edited tree does not load: " + err.Error()
		return res
	}
	var failed []string
	knownOpen := map[string]bool{}
	for _, k := range loadKnownFindings() {
		if k.Status == "open" {
			knownOpen[k.Obligation] = true
		}
	}
	if e.Engine == "frame" {
		for _, v := range p.frameCheck() {
			failed = append(failed, v.Name)
		}
	} else {
		for _, k := range e.Functions {
			fn := p.funcs[k]
			fc := p.contracts.Funcs[k]
			if fn == nil || fc == nil {
				res.Detail = "function or contract missing: " + k
				return res
			}
			fr := p.verifyFunc(fn, fc, opts)
			if fr.Err != nil {
				failed = append(failed, k+"/reach")
				continue
			}
			for _, o := range fr.Obls {
				if fc.NotClaim != "" || unclaimedClass(fc, oblClass(o.Name)) {
					// not claimed on the unchanged tree either: says nothing about the edit
					continue
				}
				if o.Status != "discharged" && !(e.Kind == "mustpass" && knownOpen[o.Name]) {
					failed = append(failed, o.Name)
				}
			}
			for _, cb := range fr.CoverBad {
				failed = append(failed, cb)
			}
		}
	}
	if e.Kind == "mustpass" {
		res.OK = len(failed) == 0
		if !res.OK {
			res.Detail = "harmless edit broke: " + strings.Join(failed, ", ")
		}
		return res
	}
	if len(e.Expect) == 0 {
		res.OK = len(failed) > 0
	} else {
		for _, f := range failed {
			for _, want := range e.Expect {
				if strings.HasPrefix(f, want) {
					res.OK = true
				}
			}
		}
	}
	if res.OK {
		res.Detail = "rejected by " + strings.Join(failed, ", ")
	} else {
		res.Detail = "NOT rejected; failing obligations: [" + strings.Join(failed, ", ") + "]"
	}
	return res
}

var selftestDeadline time.Time // zero: no limit

func runSelftests(entries []SelftestEntry, repo string, opts verifyOpts, par int) []selftestResult {
	out := make([]selftestResult, len(entries))
	sem := make(chan struct{}, par)
	var wg sync.WaitGroup
	sub := opts
	sub.workers = opts.workers / par
	if sub.workers < 2 {
		sub.workers = 2
	}
	for i, e := range entries {
		sem <- struct{}{}
		if !selftestDeadline.IsZero() && time.Now().After(selftestDeadline) {
			out[i] = selftestResult{Name: e.Name, Kind: e.Kind, OK: true, Detail: "skipped (quick-tier time budget)"}
			<-sem
			continue
		}
		wg.Add(1)
		go func(i int, e SelftestEntry) {
			defer wg.Done()
			defer func() { <-sem }()
			defer func() {
				if r := recover(); r != nil {
					out[i] = selftestResult{Name: e.Name, Kind: e.Kind, Detail: fmt.Sprint("panic: ", r)}
				}
			}()
			out[i] = runSelftestEntry(e, repo, sub)
		}(i, e)
	}
	wg.Wait()
	return out
}

func cmdSelftest(args []string) int {
	fs := flag.NewFlagSet("selftest", flag.ExitOnError)
	repo := fs.String("repo", "/repo", "repository")
	prop := fs.String("property", "", "only entries tagged with this property")
	name := fs.String("name", "", "only this entry")
	fs.Parse(args)
	var sel []SelftestEntry
	for _, e := range loadSelftests() {
		if *name != "" && e.Name != *name {
			continue
		}
		if *prop != "" && !contains(e.Property, *prop) {
			continue
		}
		sel = append(sel, e)
	}
	res := runSelftests(sel, *repo, defaultOpts(), 4)
	bad := 0
	for _, r := range res {
		st := "ok  "
		if !r.OK {
			st = "FAIL"
			bad++
		}
		fmt.Printf("%s %-9s %-40s %s\n", st, r.Kind, r.Name, r.Detail)
	}
	if bad > 0 {
		return 1
	}
	return 0
}

func contains(xs []string, s string) bool {
	for _, x := range xs {
		if x == s {
			return true
		}
	}
	return false
}
