package main

// Concrete evaluation of contract expressions: used to replay solver models
// and bounded-search inputs against the results of the real, compiled code.

import (
	"fmt"
	"sort"
	"strings"
)

type CV struct {
	K      string // "int", "bool", "seq", "struct", "nil", "ptr"
	I      int64
	B      bool
	S      []int64
	Fields map[string]CV
	Nil    bool
}

func cvInt(i int64) CV { return CV{K: "int", I: i} }
func cvBool(b bool) CV { return CV{K: "bool", B: b} }
func cvBytes(b []byte) CV {
	s := make([]int64, len(b))
	for i, x := range b {
		s[i] = int64(x)
	}
	return CV{K: "seq", S: s}
}

func (v CV) String() string {
	switch v.K {
	case "int":
		return fmt.Sprint(v.I)
	case "bool":
		return fmt.Sprint(v.B)
	case "seq":
		b := make([]byte, len(v.S))
		printable := true
		for i, x := range v.S {
			b[i] = byte(x)
			if x < 0 || x > 255 {
				printable = false
			}
		}
		if printable {
			return fmt.Sprintf("%q", string(b))
		}
		return fmt.Sprint(v.S)
	case "struct":
		var ks []string
		for k := range v.Fields {
			ks = append(ks, k)
		}
		sort.Strings(ks)
		var parts []string
		for _, k := range ks {
			parts = append(parts, k+":"+v.Fields[k].String())
		}
		return "{" + strings.Join(parts, " ") + "}"
	case "nil":
		return "nil"
	}
	return "?"
}

type interpErr struct{ msg string }

type Interp struct {
	cs     *Contracts
	consts map[string]int64
	memo   map[string]CV
	steps  int
}

func (in *Interp) errf(format string, args ...interface{}) {
	panic(interpErr{fmt.Sprintf(format, args...)})
}

func (in *Interp) evalBool(e *CExpr, env map[string]CV) bool {
	v := in.eval(e, env)
	if v.K != "bool" {
		in.errf("expected bool: %s", e)
	}
	return v.B
}

func (in *Interp) evalInt(e *CExpr, env map[string]CV) int64 {
	v := in.eval(e, env)
	if v.K != "int" {
		in.errf("expected int: %s (got %s)", e, v.K)
	}
	return v.I
}

func (in *Interp) eval(e *CExpr, env map[string]CV) CV {
	in.steps++
	if in.steps > 50_000_000 {
		in.errf("evaluation budget exceeded")
	}
	switch e.Kind {
	case "int":
		return cvInt(e.Int)
	case "bool":
		return cvBool(e.Bool)
	case "str":
		return cvBytes([]byte(e.Str))
	case "id":
		if e.Str == "nil" {
			return CV{K: "nil", Nil: true}
		}
		if v, ok := env[e.Str]; ok {
			return v
		}
		if c, ok := in.consts[e.Str]; ok {
			return cvInt(c)
		}
		in.errf("unknown identifier %s", e.Str)
	case "field":
		v := in.eval(e.X, env)
		if v.K != "struct" {
			in.errf("field of non-struct: %s", e)
		}
		f, ok := v.Fields[e.Str]
		if !ok {
			in.errf("no field %s", e.Str)
		}
		return f
	case "index":
		s := in.eval(e.X, env)
		i := in.evalInt(e.Y, env)
		if s.K != "seq" {
			in.errf("index of non-sequence: %s", e)
		}
		if i < 0 || i >= int64(len(s.S)) {
			// out-of-range reads are unspecified in the logic; a contract that depends on one is reported
			in.errf("contract reads %s out of range (index %d, len %d)", e, i, len(s.S))
		}
		return cvInt(s.S[i])
	case "slice":
		s := in.eval(e.X, env)
		lo, hi := int64(0), int64(len(s.S))
		if e.Y != nil {
			lo = in.evalInt(e.Y, env)
		}
		if e.Z != nil {
			hi = in.evalInt(e.Z, env)
		}
		if lo < 0 || hi < lo || hi > int64(len(s.S)) {
			in.errf("contract slices %s out of range", e)
		}
		return CV{K: "seq", S: s.S[lo:hi]}
	case "old":
		n := map[string]CV{}
		for k, v := range env {
			n[k] = v
		}
		for k, v := range env {
			if strings.HasPrefix(k, "old:") {
				n[strings.TrimPrefix(k, "old:")] = v
			}
		}
		return in.eval(e.X, n)
	case "deref":
		v := in.eval(e.X, env)
		return v // pointers are dumped as the value they point to
	case "unop":
		if e.Str == "!" {
			return cvBool(!in.evalBool(e.X, env))
		}
		return cvInt(-in.evalInt(e.X, env))
	case "cond":
		if in.evalBool(e.X, env) {
			return in.eval(e.Y, env)
		}
		return in.eval(e.Z, env)
	case "binop":
		switch e.Str {
		case "&&":
			return cvBool(in.evalBool(e.X, env) && in.evalBool(e.Y, env))
		case "||":
			return cvBool(in.evalBool(e.X, env) || in.evalBool(e.Y, env))
		case "==>":
			return cvBool(!in.evalBool(e.X, env) || in.evalBool(e.Y, env))
		case "<==>":
			return cvBool(in.evalBool(e.X, env) == in.evalBool(e.Y, env))
		case "==", "!=":
			a, b := in.eval(e.X, env), in.eval(e.Y, env)
			eq := cvEqual(a, b)
			if e.Str == "!=" {
				eq = !eq
			}
			return cvBool(eq)
		}
		a, b := in.evalInt(e.X, env), in.evalInt(e.Y, env)
		switch e.Str {
		case "<":
			return cvBool(a < b)
		case "<=":
			return cvBool(a <= b)
		case ">":
			return cvBool(a > b)
		case ">=":
			return cvBool(a >= b)
		case "+":
			return cvInt(a + b)
		case "-":
			return cvInt(a - b)
		case "*":
			return cvInt(a * b)
		case "/":
			if b == 0 {
				in.errf("division by zero in contract")
			}
			return cvInt(a / b)
		case "%":
			if b == 0 {
				in.errf("division by zero in contract")
			}
			return cvInt(a % b)
		}
	case "forall", "exists":
		if e.Lo == nil {
			in.errf("unbounded quantifier cannot be evaluated: %s", e)
		}
		lo, hi := in.evalInt(e.Lo, env), in.evalInt(e.Hi, env)
		n := map[string]CV{}
		for k, v := range env {
			n[k] = v
		}
		for k := lo; k < hi; k++ {
			n[e.Var] = cvInt(k)
			b := in.evalBool(e.Body, n)
			if e.Kind == "forall" && !b {
				return cvBool(false)
			}
			if e.Kind == "exists" && b {
				return cvBool(true)
			}
		}
		return cvBool(e.Kind == "forall")
	case "call":
		return in.call(e, env)
	}
	in.errf("cannot evaluate %s", e)
	return CV{}
}

func cvEqual(a, b CV) bool {
	if a.K == "nil" || b.K == "nil" {
		if a.K == "seq" {
			return a.Nil
		}
		if b.K == "seq" {
			return b.Nil
		}
		return a.Nil == b.Nil
	}
	if a.K != b.K {
		return false
	}
	switch a.K {
	case "int":
		return a.I == b.I
	case "bool":
		return a.B == b.B
	case "seq":
		if len(a.S) != len(b.S) {
			return false
		}
		for i := range a.S {
			if a.S[i] != b.S[i] {
				return false
			}
		}
		return true
	case "struct":
		for k, v := range a.Fields {
			if !cvEqual(v, b.Fields[k]) {
				return false
			}
		}
		return true
	}
	return false
}

func (in *Interp) call(e *CExpr, env map[string]CV) CV {
	switch e.Str {
	case "len":
		s := in.eval(e.Args[0], env)
		return cvInt(int64(len(s.S)))
	case "cap":
		s := in.eval(e.Args[0], env)
		if c, ok := s.Fields["#cap"]; ok {
			return c
		}
		return cvInt(int64(len(s.S)))
	case "min", "max":
		a, b := in.evalInt(e.Args[0], env), in.evalInt(e.Args[1], env)
		if (e.Str == "min") == (a <= b) {
			return cvInt(a)
		}
		return cvInt(b)
	case "aliases", "sameArray", "fresh", "allocated", "offsetOf":
		in.errf("%s() cannot be evaluated on concrete values", e.Str)
	case "isnil":
		a := in.eval(e.Args[0], env)
		return cvBool(a.Nil)
	}
	if sf, ok := in.cs.Specs[e.Str]; ok {
		args := make([]CV, len(e.Args))
		var key strings.Builder
		key.WriteString(sf.Name)
		memoable := true
		for i, a := range e.Args {
			args[i] = in.eval(a, env)
			switch args[i].K {
			case "int":
				fmt.Fprintf(&key, "|%d", args[i].I)
			case "bool":
				fmt.Fprintf(&key, "|%v", args[i].B)
			case "seq":
				fmt.Fprintf(&key, "|s%p:%d", sliceID(args[i].S), len(args[i].S))
			default:
				memoable = false
			}
		}
		if memoable {
			if v, ok := in.memo[key.String()]; ok {
				return v
			}
		}
		n := map[string]CV{}
		for i, p := range sf.Params {
			n[p.Name] = args[i]
		}
		v := in.eval(sf.Body, n)
		if memoable {
			in.memo[key.String()] = v
		}
		return v
	}
	in.errf("unknown function %s in contract", e.Str)
	return CV{}
}

func sliceID(s []int64) *int64 {
	if len(s) == 0 {
		return nil
	}
	return &s[0]
}

// safeEvalBool evaluates a clause, reporting evaluation errors instead of panicking.
func (in *Interp) safeEvalBool(e *CExpr, env map[string]CV) (res bool, err error) {
	defer func() {
		if r := recover(); r != nil {
			if ie, ok := r.(interpErr); ok {
				err = fmt.Errorf("%s", ie.msg)
				return
			}
			panic(r)
		}
	}()
	return in.evalBool(e, env), nil
}
