package main

// Replay: turn a solver model (or an enumerated input) into concrete Go
// values, run the REAL function on them through `go test -overlay` (nothing is
// written under /repo), and evaluate the contract on the real result.

import (
	"bytes"
	"context"
	"encoding/json"
	"fmt"
	"go/types"
	"os"
	"os/exec"
	"path/filepath"
	"sort"
	"strings"
	"time"

	"golang.org/x/tools/go/ssa"
)

type ArgVal struct {
	Name   string   `json:"name"`
	Type   string   `json:"type"`
	Int    int64    `json:"int,omitempty"`
	Bool   bool     `json:"bool,omitempty"`
	Bytes  []int64  `json:"bytes,omitempty"`
	IsNil  bool     `json:"nil,omitempty"`
	Kind   string   `json:"kind"` // int bool bytes string struct
	Fields []ArgVal `json:"fields,omitempty"`
}

type ReplayCase struct {
	Args []ArgVal `json:"args"`
}

type ReplayOutcome struct {
	Case       ReplayCase             `json:"case"`
	Result     map[string]interface{} `json:"result"`
	Panic      string                 `json:"panic,omitempty"`
	Violated   []string               `json:"violated,omitempty"`
	PreFailed  []string               `json:"precondition_failed,omitempty"`
	EvalErrors []string               `json:"eval_errors,omitempty"`
}

func paramKind(t types.Type) string {
	switch u := t.Underlying().(type) {
	case *types.Basic:
		switch {
		case u.Info()&types.IsBoolean != 0:
			return "bool"
		case u.Info()&types.IsString != 0:
			return "string"
		case u.Info()&types.IsInteger != 0:
			return "int"
		}
	case *types.Slice:
		if b, ok := u.Elem().Underlying().(*types.Basic); ok && b.Kind() == types.Uint8 {
			return "bytes"
		}
	case *types.Struct:
		// structs of scalars; pointer fields are left nil
		for i := 0; i < u.NumFields(); i++ {
			ft := u.Field(i).Type()
			if _, isPtr := ft.Underlying().(*types.Pointer); isPtr {
				continue
			}
			if k := paramKind(ft); k != "int" && k != "bool" && k != "struct" {
				return ""
			}
		}
		return "struct"
	}
	return ""
}

func typeExpr(t types.Type) string {
	return types.TypeString(t, func(p *types.Package) string { return "" })
}

// replayable: plain function (or value-receiver-free) over scalars, []byte and strings.
func replayable(fn *ssa.Function) bool {
	if fn.Signature.Recv() != nil || fn.Parent() != nil {
		return false
	}
	for _, p := range fn.Params {
		if paramKind(p.Type()) == "" {
			return false
		}
	}
	return true
}

// modelCase asks the portfolio for a model of the failing VC and extracts the inputs.
func (x *Exec) modelCase(o *Obligation, depth int, timeout time.Duration) (*ReplayCase, string) {
	q := x.buildQueryM(o, depth, 6, true)
	const maxElems = 40
	type seqInfo struct {
		name  string
		sv    SV
		elems []*Term
	}
	var vals []*Term
	var seqs []seqInfo
	var names []string
	for n := range x.params {
		names = append(names, n)
	}
	sort.Strings(names)
	var addLeaves func(sv SV)
	addLeaves = func(sv SV) {
		switch sv.K {
		case KInt, KBool:
			vals = append(vals, sv.T)
		case KStruct:
			for _, f := range sv.Fields {
				addLeaves(f)
			}
		}
	}
	for _, n := range names {
		sv := x.params[n]
		switch sv.K {
		case KStruct:
			addLeaves(sv)
		case KInt, KBool:
			vals = append(vals, sv.T)
		case KSeq:
			vals = append(vals, sv.Len, sv.Id)
			si := seqInfo{name: n, sv: sv}
			key := "E:byte"
			if isStringType(sv.Ty) {
				key = "S:byte"
			}
			h := Var("H0."+key, SArr2)
			for k := 0; k < maxElems; k++ {
				e := Select(Select(h, sv.Id), Add(sv.Off, IntC(int64(k))))
				si.elems = append(si.elems, e)
				vals = append(vals, e)
			}
			seqs = append(seqs, si)
		}
	}
	q.Values = vals
	var lastOut string
	for _, bound := range []int64{8, maxElems, -1} {
		q2 := &Query{Name: q.Name, Assumes: append([]*Term(nil), q.Assumes...), Goal: q.Goal, Values: vals}
		if bound >= 0 {
			for _, s := range seqs {
				q2.Assumes = append(q2.Assumes, Le(s.sv.Len, IntC(bound)))
			}
		}
		r := race(q2, timeout, true)
		lastOut = r.Status + " (" + r.Solver + ")"
		if r.Status != "sat" || r.Model == nil {
			continue
		}
		get := func(t *Term) (int64, bool) {
			v, ok := r.Model[normSpace(t.String())]
			if !ok {
				return 0, false
			}
			return parseIntValue(v)
		}
		rc := &ReplayCase{}
		ok := true
		var structVal func(name string, t types.Type, sv SV) ArgVal
		structVal = func(name string, t types.Type, sv SV) ArgVal {
			av := ArgVal{Name: name, Type: typeExpr(t), Kind: paramKind(t)}
			switch sv.K {
			case KInt:
				v, found := get(sv.T)
				if !found {
					ok = false
				}
				av.Int = v
			case KBool:
				av.Bool = r.Model[normSpace(sv.T.String())] == "true"
			case KStruct:
				stt := t.Underlying().(*types.Struct)
				for i := 0; i < stt.NumFields(); i++ {
					if _, isPtr := stt.Field(i).Type().Underlying().(*types.Pointer); isPtr {
						continue
					}
					av.Fields = append(av.Fields, structVal(stt.Field(i).Name(), stt.Field(i).Type(), sv.Fields[i]))
				}
			}
			return av
		}
		for _, p := range x.fn.Params {
			sv := x.params[p.Name()]
			av := ArgVal{Name: p.Name(), Type: typeExpr(p.Type()), Kind: paramKind(p.Type())}
			switch sv.K {
			case KStruct:
				av = structVal(p.Name(), p.Type(), sv)
			case KInt:
				v, found := get(sv.T)
				if !found {
					ok = false
				}
				av.Int = v
			case KBool:
				s := r.Model[normSpace(sv.T.String())]
				av.Bool = s == "true"
			case KSeq:
				n, found := get(sv.Len)
				if !found || n > maxElems {
					ok = false
					break
				}
				id, _ := get(sv.Id)
				av.IsNil = id == 0
				for _, s := range seqs {
					if s.name != p.Name() {
						continue
					}
					for k := int64(0); k < n; k++ {
						b, found := get(s.elems[k])
						if !found {
							b = 0
						}
						av.Bytes = append(av.Bytes, ((b%256)+256)%256)
					}
				}
			}
			rc.Args = append(rc.Args, av)
		}
		if ok {
			return rc, r.Status + " (" + r.Solver + ")"
		}
	}
	return nil, lastOut
}

// ---- running the real code ----

const dumpHelpers = `
func govcDump(v reflect.Value, d int) interface{} {
	switch v.Kind() {
	case reflect.Bool:
		return v.Bool()
	case reflect.Int, reflect.Int8, reflect.Int16, reflect.Int32, reflect.Int64:
		return v.Int()
	case reflect.Uint, reflect.Uint8, reflect.Uint16, reflect.Uint32, reflect.Uint64, reflect.Uintptr:
		return int64(v.Uint())
	case reflect.String:
		s := v.String()
		xs := make([]int64, len(s))
		for i := 0; i < len(s); i++ {
			xs[i] = int64(s[i])
		}
		return map[string]interface{}{"$seq": xs}
	case reflect.Slice:
		if v.Type().Elem().Kind() == reflect.Uint8 {
			xs := make([]int64, v.Len())
			for i := 0; i < v.Len(); i++ {
				xs[i] = int64(v.Index(i).Uint())
			}
			return map[string]interface{}{"$seq": xs, "$nil": v.IsNil(), "$cap": v.Cap()}
		}
		if d > 4 {
			return map[string]interface{}{"$opaque": true}
		}
		var xs []interface{}
		for i := 0; i < v.Len(); i++ {
			xs = append(xs, govcDump(v.Index(i), d+1))
		}
		return map[string]interface{}{"$list": xs, "$nil": v.IsNil()}
	case reflect.Struct:
		m := map[string]interface{}{}
		for i := 0; i < v.NumField(); i++ {
			m[v.Type().Field(i).Name] = govcDump(v.Field(i), d+1)
		}
		return m
	case reflect.Ptr:
		if v.IsNil() {
			return map[string]interface{}{"$nil": true}
		}
		if d > 4 {
			return map[string]interface{}{"$opaque": true}
		}
		return govcDump(v.Elem(), d+1)
	case reflect.Interface:
		if v.IsNil() {
			return map[string]interface{}{"$nil": true}
		}
		return map[string]interface{}{"$opaque": true}
	}
	return map[string]interface{}{"$opaque": true}
}

func govcEmit(idx int, m map[string]interface{}) {
	m["idx"] = idx
	b, _ := json.Marshal(m)
	fmt.Println("GOVC:" + string(b))
}
`

func goLiteral(a ArgVal) string {
	switch a.Kind {
	case "int":
		return fmt.Sprintf("%s(%d)", a.Type, a.Int)
	case "bool":
		return fmt.Sprint(a.Bool)
	case "bytes":
		if a.IsNil && len(a.Bytes) == 0 {
			return "[]byte(nil)"
		}
		var sb strings.Builder
		sb.WriteString("[]byte{")
		for i, b := range a.Bytes {
			if i > 0 {
				sb.WriteString(",")
			}
			fmt.Fprintf(&sb, "%d", b)
		}
		sb.WriteString("}")
		return sb.String()
	case "struct":
		var sb strings.Builder
		sb.WriteString(a.Type + "{")
		for i, f := range a.Fields {
			if i > 0 {
				sb.WriteString(", ")
			}
			sb.WriteString(f.Name + ": " + goLiteral(f))
		}
		sb.WriteString("}")
		return sb.String()
	case "string":
		var sb strings.Builder
		sb.WriteString("string([]byte{")
		for i, b := range a.Bytes {
			if i > 0 {
				sb.WriteString(",")
			}
			fmt.Fprintf(&sb, "%d", b)
		}
		sb.WriteString("})")
		return sb.String()
	}
	return "nil"
}

func replayTestSource(pkgName string, fn *ssa.Function, cases []ReplayCase) string {
	var sb strings.Builder
	fmt.Fprintf(&sb, "package %s\n\nimport (\n\t\"encoding/json\"\n\t\"fmt\"\n\t\"reflect\"\n\t\"testing\"\n)\n", pkgName)
	sb.WriteString(dumpHelpers)
	sb.WriteString("\nfunc TestGovcReplay(t *testing.T) {\n")
	nres := fn.Signature.Results().Len()
	for idx, c := range cases {
		fmt.Fprintf(&sb, "\tfunc() {\n\t\tdefer func() {\n\t\t\tif r := recover(); r != nil {\n\t\t\t\tgovcEmit(%d, map[string]interface{}{\"panic\": fmt.Sprint(r)})\n\t\t\t}\n\t\t}()\n", idx)
		var argNames []string
		for i, a := range c.Args {
			fmt.Fprintf(&sb, "\t\ta%d := %s\n", i, goLiteral(a))
			argNames = append(argNames, fmt.Sprintf("a%d", i))
		}
		var res []string
		for i := 0; i < nres; i++ {
			res = append(res, fmt.Sprintf("r%d", i))
		}
		call := fmt.Sprintf("%s(%s)", fn.Name(), strings.Join(argNames, ", "))
		if nres > 0 {
			fmt.Fprintf(&sb, "\t\t%s := %s\n", strings.Join(res, ", "), call)
		} else {
			fmt.Fprintf(&sb, "\t\t%s\n", call)
		}
		sb.WriteString("\t\tm := map[string]interface{}{}\n")
		for i := range res {
			fmt.Fprintf(&sb, "\t\tm[\"r%d\"] = govcDump(reflect.ValueOf(&r%d).Elem(), 0)\n", i, i)
		}
		for i := range c.Args {
			fmt.Fprintf(&sb, "\t\tm[\"a%d\"] = govcDump(reflect.ValueOf(&a%d).Elem(), 0)\n", i, i)
		}
		fmt.Fprintf(&sb, "\t\tgovcEmit(%d, m)\n\t}()\n", idx)
	}
	sb.WriteString("}\n")
	return sb.String()
}

// runOverlayTest injects src as an in-package test file and runs it.
func runOverlayTest(repo, pkgDir, src string, timeout time.Duration) (string, error) {
	initScratch()
	tmp, err := os.MkdirTemp(scratchDir, "replay")
	if err != nil {
		return "", err
	}
	defer os.RemoveAll(tmp)
	testFile := filepath.Join(tmp, "zz_govc_replay_test.go")
	if err := os.WriteFile(testFile, []byte(src), 0o644); err != nil {
		return "", err
	}
	ov := map[string]map[string]string{"Replace": {filepath.Join(pkgDir, "zz_govc_replay_test.go"): testFile}}
	ovb, _ := json.Marshal(ov)
	ovFile := filepath.Join(tmp, "overlay.json")
	if err := os.WriteFile(ovFile, ovb, 0o644); err != nil {
		return "", err
	}
	ctx, cancel := context.WithTimeout(context.Background(), timeout+30*time.Second)
	defer cancel()
	cmd := exec.CommandContext(ctx, "go", "test", "-tags", "verif", "-overlay", ovFile, "-vet=off", "-count=1", "-v",
		fmt.Sprintf("-timeout=%ds", int(timeout.Seconds())), "-run", "^TestGovcReplay$", ".")
	cmd.Dir = pkgDir
	cmd.Env = append(os.Environ(), "GOFLAGS=-mod=mod", "GOPROXY=off", "GOSUMDB=off", "GOTOOLCHAIN=local")
	var out bytes.Buffer
	cmd.Stdout = &out
	cmd.Stderr = &out
	err = cmd.Run()
	return out.String(), err
}

func jsonToCV(v interface{}) CV {
	switch t := v.(type) {
	case bool:
		return cvBool(t)
	case float64:
		return cvInt(int64(t))
	case map[string]interface{}:
		if s, ok := t["$seq"]; ok {
			cv := CV{K: "seq"}
			if arr, ok := s.([]interface{}); ok {
				for _, e := range arr {
					cv.S = append(cv.S, int64(e.(float64)))
				}
			}
			if n, ok := t["$nil"].(bool); ok {
				cv.Nil = n
			}
			if c, ok := t["$cap"].(float64); ok {
				cv.Fields = map[string]CV{"#cap": cvInt(int64(c))}
			}
			return cv
		}
		if n, ok := t["$nil"].(bool); ok && n && len(t) == 1 {
			return CV{K: "nil", Nil: true}
		}
		cv := CV{K: "struct", Fields: map[string]CV{}}
		for k, e := range t {
			cv.Fields[k] = jsonToCV(e)
		}
		return cv
	}
	return CV{K: "?"}
}

func argToCV(a ArgVal) CV {
	switch a.Kind {
	case "int":
		return cvInt(a.Int)
	case "bool":
		return cvBool(a.Bool)
	case "bytes", "string":
		return CV{K: "seq", S: append([]int64(nil), a.Bytes...), Nil: a.IsNil && len(a.Bytes) == 0}
	case "struct":
		cv := CV{K: "struct", Fields: map[string]CV{}}
		for _, f := range a.Fields {
			cv.Fields[f.Name] = argToCV(f)
		}
		return cv
	}
	return CV{K: "?"}
}

// runCases executes the real function on the cases and evaluates the contract on each result.
func (p *Program) runCases(fn *ssa.Function, fc *FuncContract, cases []ReplayCase) ([]ReplayOutcome, string, error) {
	pkgDir := p.repoDir
	pkgName := fn.Pkg.Pkg.Name()
	if pkgName == "format" {
		pkgDir = filepath.Join(p.repoDir, "format")
	}
	src := replayTestSource(pkgName, fn, cases)
	out, err := runOverlayTest(p.repoDir, pkgDir, src, 120*time.Second)
	results := map[int]map[string]interface{}{}
	for _, line := range strings.Split(out, "\n") {
		if !strings.HasPrefix(line, "GOVC:") {
			continue
		}
		var m map[string]interface{}
		if json.Unmarshal([]byte(line[5:]), &m) == nil {
			if idx, ok := m["idx"].(float64); ok {
				results[int(idx)] = m
			}
		}
	}
	if len(results) == 0 {
		return nil, out, fmt.Errorf("replay produced no results: %v", err)
	}
	var outs []ReplayOutcome
	for idx, c := range cases {
		ro := ReplayOutcome{Case: c, Result: results[idx]}
		m := results[idx]
		if m == nil {
			ro.EvalErrors = append(ro.EvalErrors, "no result recorded")
			outs = append(outs, ro)
			continue
		}
		in := &Interp{cs: p.contracts, consts: p.constants, memo: map[string]CV{}}
		env := map[string]CV{}
		for _, a := range c.Args {
			env[a.Name] = argToCV(a)
		}
		// preconditions on the input
		pre := true
		for _, r := range fc.Requires {
			ok, e := in.safeEvalBool(r.Expr, env)
			if e != nil {
				ro.EvalErrors = append(ro.EvalErrors, "requires "+r.Label+": "+e.Error())
				pre = false
			} else if !ok {
				ro.PreFailed = append(ro.PreFailed, r.Label)
				pre = false
			}
		}
		if !pre {
			outs = append(outs, ro)
			continue
		}
		if pm, ok := m["panic"].(string); ok {
			ro.Panic = pm
			ro.Violated = append(ro.Violated, "safe:panic")
			outs = append(outs, ro)
			continue
		}
		sig := fn.Signature
		for i := 0; i < sig.Results().Len(); i++ {
			cv := jsonToCV(m[fmt.Sprintf("r%d", i)])
			if n := sig.Results().At(i).Name(); n != "" && n != "_" {
				env[n] = cv
			}
			env[fmt.Sprintf("result%d", i)] = cv
			if sig.Results().Len() == 1 {
				env["result"] = cv
			}
		}
		// old(arg) = the input; the current value of a []byte argument is what the call left behind
		for i, a := range c.Args {
			env["old:"+a.Name] = argToCV(a)
			if a.Kind == "bytes" {
				if after, ok := m[fmt.Sprintf("a%d", i)]; ok {
					env[a.Name] = jsonToCV(after)
				}
			}
		}
		for _, e := range fc.Ensures {
			ok, er := in.safeEvalBool(e.Expr, env)
			if er != nil {
				ro.EvalErrors = append(ro.EvalErrors, "ensures "+e.Label+": "+er.Error())
			} else if !ok {
				ro.Violated = append(ro.Violated, "post:"+e.Label)
			}
		}
		outs = append(outs, ro)
	}
	return outs, out, nil
}

// ---- bounded search (stand-in when the solver gives no usable model) ----

// enumCases enumerates inputs for single-sequence or single-scalar functions.
func enumCases(fn *ssa.Function, alphabet string, maxLen int, limit int) []ReplayCase {
	var cases []ReplayCase
	if len(fn.Params) != 1 {
		return nil
	}
	p := fn.Params[0]
	kind := paramKind(p.Type())
	switch kind {
	case "int":
		lo, hi := int64(0), int64(255)
		if b, ok := p.Type().Underlying().(*types.Basic); ok && b.Kind() != types.Uint8 {
			lo, hi = -1, 0x110000 // runes: sample
			for _, v := range []int64{-1, 0, 9, 10, 12, 13, 32, 33, 47, 48, 57, 58, 64, 65, 70, 71, 90, 91, 96, 97, 102, 103, 122, 123, 126, 127, 128, 0xA0, 0x2000, 0x3000, 0xFFFD, 0x10FFFF} {
				cases = append(cases, ReplayCase{Args: []ArgVal{{Name: p.Name(), Type: p.Type().String(), Kind: kind, Int: v}}})
			}
			return cases
		}
		for v := lo; v <= hi; v++ {
			cases = append(cases, ReplayCase{Args: []ArgVal{{Name: p.Name(), Type: p.Type().String(), Kind: kind, Int: v}}})
		}
		return cases
	case "bytes", "string":
		if alphabet == "" {
			alphabet = "a #\n"
		}
		// shortest first, so a truncated enumeration is complete up to some length
		level := [][]int64{nil}
		for n := 0; n <= maxLen && len(cases) < limit; n++ {
			var next [][]int64
			for _, w := range level {
				if len(cases) >= limit {
					break
				}
				cases = append(cases, ReplayCase{Args: []ArgVal{{Name: p.Name(), Type: p.Type().String(), Kind: kind, Bytes: w}}})
				if n < maxLen {
					for i := 0; i < len(alphabet); i++ {
						next = append(next, append(append([]int64(nil), w...), int64(alphabet[i])))
					}
				}
			}
			level = next
		}
		return cases
	}
	return nil
}
