package main

// Solver portfolio: z3 4.8.12 (/usr/bin/z3), z3 5.1.0 (z3-new), cvc5 1.0.x.

import (
	"bytes"
	"context"
	"fmt"
	"os"
	"os/exec"
	"path/filepath"
	"strings"
	"sync"
	"sync/atomic"
	"time"
)

type Query struct {
	Name    string
	Assumes []*Term
	Goal    *Term   // to be proved under Assumes; nil for a satisfiability (cover) query
	Values  []*Term // terms whose model value is wanted on sat
}

type Result struct {
	Status string // "unsat", "sat", "unknown", "timeout", "error"
	Solver string
	Time   float64
	Output string
	Model  map[string]string // printed term -> value text
}

func (q *Query) smtlib(withModel bool, solver string) string {
	var sb strings.Builder
	if withModel {
		sb.WriteString("(set-option :produce-models true)\n")
	}
	if solver == "cvc5" {
		sb.WriteString("(set-logic ALL)\n")
	}
	ds := newDeclSet()
	for _, a := range q.Assumes {
		ds.collect(a, nil)
	}
	if q.Goal != nil {
		ds.collect(q.Goal, nil)
	}
	for _, v := range q.Values {
		ds.collect(v, nil)
	}
	ds.emit(&sb)
	for _, a := range q.Assumes {
		sb.WriteString("(assert ")
		a.write(&sb)
		sb.WriteString(")\n")
	}
	if q.Goal != nil {
		sb.WriteString("(assert (not ")
		q.Goal.write(&sb)
		sb.WriteString("))\n")
	}
	sb.WriteString("(check-sat)\n")
	if withModel && len(q.Values) > 0 {
		for _, v := range q.Values {
			sb.WriteString("(get-value (")
			v.write(&sb)
			sb.WriteString("))\n")
		}
	}
	return sb.String()
}

var scratchDir string
var queryCounter int64
var solverStats sync.Map // solver -> *solverStat

type solverStat struct {
	mu    sync.Mutex
	unsat int
	sat   int
	other int
	time  float64
}

func statFor(s string) *solverStat {
	v, _ := solverStats.LoadOrStore(s, &solverStat{})
	return v.(*solverStat)
}

func initScratch() {
	if scratchDir != "" {
		return
	}
	d, err := os.MkdirTemp("", "govc-")
	if err != nil {
		panic(err)
	}
	scratchDir = d
}

func cleanupScratch() {
	if keepSMT && scratchDir != "" {
		fmt.Fprintln(os.Stderr, "SMT files kept in", scratchDir)
		return
	}
	if scratchDir != "" {
		os.RemoveAll(scratchDir)
		scratchDir = ""
	}
}

func solverCmd(solver, file string, timeout time.Duration) []string {
	secs := int(timeout.Seconds())
	if secs < 1 {
		secs = 1
	}
	switch solver {
	case "z3":
		return []string{"/usr/bin/z3", fmt.Sprintf("-T:%d", secs), "smt.random_seed=" + fmt.Sprint(solverSeed), file}
	case "z3-new":
		return []string{"z3-new", fmt.Sprintf("-T:%d", secs), "smt.random_seed=" + fmt.Sprint(solverSeed), file}
	case "cvc5":
		return []string{"cvc5", fmt.Sprintf("--tlimit=%d", secs*1000), "--seed=" + fmt.Sprint(solverSeed), file}
	}
	panic("unknown solver " + solver)
}

var solverSeed = 0

func runSolver(ctx context.Context, solver string, q *Query, withModel bool, timeout time.Duration) Result {
	initScratch()
	n := atomic.AddInt64(&queryCounter, 1)
	file := filepath.Join(scratchDir, fmt.Sprintf("q%d-%s.smt2", n, solver))
	text := q.smtlib(withModel, solver)
	if err := os.WriteFile(file, []byte(text), 0o644); err != nil {
		return Result{Status: "error", Solver: solver, Output: err.Error()}
	}
	defer func() {
		if !keepSMT {
			os.Remove(file)
		}
	}()
	args := solverCmd(solver, file, timeout)
	cctx, cancel := context.WithTimeout(ctx, timeout+2*time.Second)
	defer cancel()
	cmd := exec.CommandContext(cctx, args[0], args[1:]...)
	var out bytes.Buffer
	cmd.Stdout = &out
	cmd.Stderr = &out
	start := time.Now()
	_ = cmd.Run()
	el := time.Since(start).Seconds()
	res := Result{Solver: solver, Time: el, Output: out.String()}
	first := strings.TrimSpace(strings.SplitN(out.String(), "\n", 2)[0])
	switch first {
	case "unsat":
		res.Status = "unsat"
	case "sat":
		res.Status = "sat"
		if withModel {
			res.Model = parseValues(out.String())
		}
	case "unknown":
		res.Status = "unknown"
	case "timeout":
		res.Status = "timeout"
	default:
		if cctx.Err() != nil {
			res.Status = "timeout"
		} else if strings.Contains(out.String(), "timeout") || strings.Contains(out.String(), "interrupted") {
			res.Status = "timeout"
		} else {
			res.Status = "error"
		}
	}
	st := statFor(solver)
	st.mu.Lock()
	switch res.Status {
	case "unsat":
		st.unsat++
	case "sat":
		st.sat++
	default:
		st.other++
	}
	st.time += el
	st.mu.Unlock()
	return res
}

var keepSMT = false

// parseValues parses the "((term value))" lines following "sat".
func parseValues(out string) map[string]string {
	m := map[string]string{}
	lines := strings.Split(out, "\n")
	// get-value responses may span lines; join everything after the first line and split on top-level parens
	rest := strings.Join(lines[1:], " ")
	depth := 0
	start := -1
	for i, c := range rest {
		switch c {
		case '(':
			if depth == 0 {
				start = i
			}
			depth++
		case ')':
			depth--
			if depth == 0 && start >= 0 {
				item := strings.TrimSpace(rest[start+1 : i]) // "(term value)"
				if strings.HasPrefix(item, "(") {
					inner := strings.TrimSpace(item[1 : len(item)-1])
					// split into term and value: value is the last s-expr
					k, v := splitLastSexpr(inner)
					m[normSpace(k)] = normSpace(v)
				}
				start = -1
			}
		}
	}
	return m
}

func normSpace(s string) string { return strings.Join(strings.Fields(s), " ") }

func splitLastSexpr(s string) (string, string) {
	s = strings.TrimSpace(s)
	if s == "" {
		return "", ""
	}
	if s[len(s)-1] == ')' {
		depth := 0
		for i := len(s) - 1; i >= 0; i-- {
			switch s[i] {
			case ')':
				depth++
			case '(':
				depth--
				if depth == 0 {
					return strings.TrimSpace(s[:i]), s[i:]
				}
			}
		}
		return "", s
	}
	i := strings.LastIndexAny(s, " \t")
	if i < 0 {
		return "", s
	}
	return strings.TrimSpace(s[:i]), s[i+1:]
}

// parseIntValue parses "5", "(- 5)".
func parseIntValue(v string) (int64, bool) {
	v = strings.TrimSpace(v)
	neg := false
	if strings.HasPrefix(v, "(-") {
		neg = true
		v = strings.TrimSpace(strings.TrimSuffix(strings.TrimPrefix(v, "(-"), ")"))
	}
	var n int64
	if _, err := fmt.Sscanf(v, "%d", &n); err != nil {
		return 0, false
	}
	if neg {
		n = -n
	}
	return n, true
}

// prove runs the portfolio on q. Phase A: old z3 with a short timeout (fast on
// the common case); phase B: race all three with the full timeout.
func prove(q *Query, timeout time.Duration) Result {
	ctx := context.Background()
	short := 2 * time.Second
	if timeout < short {
		short = timeout
	}
	r := runSolver(ctx, "z3", q, false, short)
	if r.Status == "unsat" || r.Status == "sat" {
		return r
	}
	return race(q, timeout, false)
}

func race(q *Query, timeout time.Duration, withModel bool) Result {
	ctx, cancel := context.WithCancel(context.Background())
	defer cancel()
	solvers := []string{"z3-new", "cvc5", "z3"}
	ch := make(chan Result, len(solvers))
	for _, s := range solvers {
		go func(s string) { ch <- runSolver(ctx, s, q, withModel, timeout) }(s)
	}
	var last Result
	for range solvers {
		r := <-ch
		if r.Status == "unsat" || r.Status == "sat" {
			return r
		}
		if last.Status == "" || r.Status == "unknown" {
			last = r
		}
	}
	return last
}

// proveAll runs every solver (thorough mode) and reports disagreement.
func proveAll(q *Query, timeout time.Duration) (Result, bool) {
	ctx := context.Background()
	solvers := []string{"z3", "z3-new", "cvc5"}
	res := make([]Result, len(solvers))
	var wg sync.WaitGroup
	for i, s := range solvers {
		wg.Add(1)
		go func(i int, s string) { defer wg.Done(); res[i] = runSolver(ctx, s, q, false, timeout) }(i, s)
	}
	wg.Wait()
	var best Result
	sawSat, sawUnsat := false, false
	for _, r := range res {
		if r.Status == "unsat" {
			sawUnsat = true
			if best.Status != "unsat" {
				best = r
			}
		}
		if r.Status == "sat" {
			sawSat = true
			if best.Status == "" {
				best = r
			}
		}
	}
	if best.Status == "" {
		best = res[0]
	}
	return best, sawSat && sawUnsat
}
