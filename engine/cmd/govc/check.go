package main

// `govc check --property Cxx --tier quick|thorough`: the MANIFEST interface.

import (
	"bufio"
	"encoding/json"
	"flag"
	"fmt"
	"go/types"
	"os"
	"path/filepath"
	"sort"
	"strconv"
	"strings"
	"sync"
	"time"

	"golang.org/x/tools/go/ssa"
)

const verifDir = "/verif"

// outDir: where evidence and replay files go; GOVC_OUTDIR redirects them (runs against scratch copies of the
// repository with a seeded change applied must not overwrite the evidence of the unchanged tree)
func outDir() string {
	if d := os.Getenv("GOVC_OUTDIR"); d != "" {
		return d
	}
	return verifDir
}

type KnownFinding struct {
	Property   string `json:"property"`
	Obligation string `json:"obligation"`
	Input      string `json:"input,omitempty"`
	What       string `json:"what"`
	Status     string `json:"status"` // "open" or "fixed"
	Commit     string `json:"commit,omitempty"`
}

func loadKnownFindings() []KnownFinding {
	var out []KnownFinding
	f, err := os.Open(filepath.Join(verifDir, "KNOWN_FINDINGS.jsonl"))
	if err != nil {
		return nil
	}
	defer f.Close()
	sc := bufio.NewScanner(f)
	sc.Buffer(make([]byte, 1<<20), 1<<20)
	for sc.Scan() {
		line := strings.TrimSpace(sc.Text())
		if line == "" || strings.HasPrefix(line, "#") {
			continue
		}
		var k KnownFinding
		if json.Unmarshal([]byte(line), &k) == nil {
			out = append(out, k)
		}
	}
	return out
}

type propertyPlan struct {
	id string
	// which obligation classes of a served function belong to this property
	classFilter func(class string) bool
	allFuncs    bool // C04: every function under contract
	frame       bool // run the frame checker
}

func safetyClass(class string) bool {
	return strings.HasPrefix(class, "safe:") || strings.HasPrefix(class, "dec:")
}

var frameGroups = map[string][]string{
	"C19": {"parse", "render", "format", "walk"},
	"C10": {"render"},
	"C20": {"format"},
	"C18": {"walk"},
}

func planFor(id string) propertyPlan {
	switch id {
	case "C04":
		return propertyPlan{id: id, allFuncs: true, classFilter: safetyClass}
	}
	if _, ok := frameGroups[id]; ok {
		return propertyPlan{id: id, frame: true, classFilter: func(c string) bool { return !safetyClass(c) }}
	}
	return propertyPlan{id: id, classFilter: func(c string) bool { return !safetyClass(c) }}
}

func oblClass(name string) string {
	if i := strings.Index(name, "/"); i >= 0 {
		return name[i+1:]
	}
	return name
}

type violation struct {
	Obligation string
	Replay     string
	NoInput    bool
}

type checkRun struct {
	prop          string
	tier          string
	seed          int
	p             *Program
	opts          verifyOpts
	known         []KnownFinding
	start         time.Time
	funcs         []string
	claimed       int
	discharge     int
	vcs           int
	notDecided    []string
	knownHit      []string
	violations    []violation
	samples       []map[string]interface{}
	bounded       []map[string]interface{}
	outside       []string
	covers        int
	vacuous       []string
	assumptions   []string
	extra         map[string]interface{}
	disagreements []string
}

func cmdCheck(args []string) int {
	fs := flag.NewFlagSet("check", flag.ExitOnError)
	prop := fs.String("property", "", "property id")
	tier := fs.String("tier", "quick", "quick|thorough")
	repo := fs.String("repo", "/repo", "repository")
	noSelftest := fs.Bool("no-selftest", false, "skip the must-fail/must-pass corpus")
	fs.Parse(args)
	if *prop == "" {
		usage()
	}
	if t := os.Getenv("VERIF_TIER"); t != "" && (t == "quick" || t == "thorough") {
		*tier = t
	}
	seed := 0
	if s := os.Getenv("VERIF_SEED"); s != "" {
		if v, err := strconv.Atoi(s); err == nil {
			seed = v
		}
	}
	if *tier == "thorough" {
		solverSeed = seed
	}
	cr := &checkRun{prop: *prop, tier: *tier, seed: seed, start: time.Now(), extra: map[string]interface{}{}}
	cr.known = loadKnownFindings()
	cr.opts = defaultOpts()
	if *tier == "thorough" {
		cr.opts.timeout = 60 * time.Second
		cr.opts.thorough = true
	}
	p, err := loadProgram(*repo, nil)
	if err != nil {
		fmt.Fprintln(os.Stderr, "govc: cannot load /repo:", err)
		// a tree that does not load cannot be verified: that is an error of the run, reported as such
		fmt.Printf("VIOLATION property=%s replay=%s\n", *prop, writeLoadFailure(*prop, err))
		return 1
	}
	cr.p = p
	code := cr.run(*noSelftest)
	return code
}

func writeLoadFailure(prop string, err error) string {
	dir := filepath.Join(outDir(), "replays", prop)
	os.MkdirAll(dir, 0o755)
	path := filepath.Join(dir, "load-failure.json")
	b, _ := json.MarshalIndent(map[string]interface{}{"obligation": "load", "error": err.Error()}, "", " ")
	os.WriteFile(path, b, 0o644)
	return path
}

func (cr *checkRun) servedFuncs(plan propertyPlan) []string {
	var keys []string
	for _, k := range cr.p.contracts.Order {
		fc := cr.p.contracts.Funcs[k]
		if fc.Inline {
			continue
		}
		if plan.allFuncs {
			keys = append(keys, k)
			continue
		}
		for _, s := range fc.Serves {
			if s == cr.prop {
				keys = append(keys, k)
				break
			}
		}
	}
	return keys
}

func (cr *checkRun) run(noSelftest bool) int {
	plan := planFor(cr.prop)
	keys := cr.servedFuncs(plan)
	cr.funcs = keys
	// lemmas (shared by every property that uses recursive spec functions)
	if len(keys) > 0 && !plan.allFuncs {
		for _, lr := range cr.p.verifyLemmas(cr.opts) {
			cr.account(lr, nil, nil, plan)
		}
	}
	// functions are verified concurrently (each has few heavy VCs); results are accounted in order
	type fres struct {
		fr *FuncResult
	}
	results := make([]*FuncResult, len(keys))
	var wg sync.WaitGroup
	sem := make(chan struct{}, 4)
	for i, k := range keys {
		fc := cr.p.contracts.Funcs[k]
		if fc.Trusted != "" {
			continue
		}
		if _, gone := cr.p.unbound[k]; gone {
			continue
		}
		wg.Add(1)
		sem <- struct{}{}
		go func(i int, k string) {
			defer wg.Done()
			defer func() { <-sem }()
			fopts := cr.opts
			fopts.filter = plan.classFilter
			fopts.workers = cr.opts.workers / 2
			fr := cr.p.verifyFunc(cr.p.funcs[k], cr.p.contracts.Funcs[k], fopts)
			if fr.Err == nil && undecidedByTimeout(fr, cr.p.contracts.Funcs[k], plan, cr.known, cr.prop) {
				// an obligation that ran out of time (machine load, solver luck) is asked again with three
				// times the limit before it is reported; discharged VCs come back from the cache
				fopts.timeout *= 3
				fr = cr.p.verifyFunc(cr.p.funcs[k], cr.p.contracts.Funcs[k], fopts)
			}
			results[i] = fr
		}(i, k)
	}
	wg.Wait()
	for i, k := range keys {
		fn := cr.p.funcs[k]
		fc := cr.p.contracts.Funcs[k]
		if fc.Trusted != "" {
			cr.assumptions = append(cr.assumptions, fmt.Sprintf("trusted contract (body not verified): %s — %s", k, fc.Trusted))
			continue
		}
		if why, gone := cr.p.unbound[k]; gone {
			cr.outside = append(cr.outside, fmt.Sprintf("%s: %s", k, why))
			cr.failObligation(k+"/reach", "the function this contract is written for cannot be found: "+why, nil, nil, nil, Result{Status: "error", Output: why})
			continue
		}
		fr := results[i]
		if fr.Err != nil {
			cr.outside = append(cr.outside, fmt.Sprintf("%s: %v", k, fr.Err))
			// a function that was inside the subset on the unchanged tree and no longer is: undecided, reported
			cr.failObligation(k+"/reach", fmt.Sprintf("function cannot be verified: %v", fr.Err), nil, nil, nil, Result{Status: "error", Output: fr.Err.Error()})
			continue
		}
		cr.covers += fr.Covers
		for _, cb := range fr.CoverBad {
			cr.vacuous = append(cr.vacuous, cb)
			cr.failObligation(cb, "contradictory assumptions (vacuous proof)", nil, nil, nil, Result{Status: "unsat"})
		}
		for _, o := range fr.Obls {
			cr.account(o, fn, fc, plan)
		}
	}
	if plan.frame {
		cr.runFrame()
	}
	cr.extraChecks()
	if !noSelftest {
		cr.runSelftest()
	}
	cr.writeEvidence()
	for _, k := range cr.knownHit {
		fmt.Printf("KNOWN-FINDING: property=%s %s\n", cr.prop, k)
	}
	if len(cr.violations) > 0 {
		for _, v := range cr.violations {
			line := fmt.Sprintf("VIOLATION property=%s replay=%s", cr.prop, v.Replay)
			if v.NoInput {
				line += " obligation=" + v.Obligation + " no-failing-input-found"
			}
			fmt.Println(line)
		}
		return 1
	}
	fmt.Printf("OK property=%s tier=%s functions=%d obligations=%d discharged=%d vcs=%d not_decided=%d known_findings=%d wall=%.1fs\n",
		cr.prop, cr.tier, len(cr.funcs), cr.claimed, cr.discharge, cr.vcs, len(cr.notDecided), len(cr.knownHit), time.Since(cr.start).Seconds())
	return 0
}

// undecidedByTimeout: some obligation of the function failed without a model (time-out / unknown).
func undecidedByTimeout(fr *FuncResult, fc *FuncContract, plan propertyPlan, known []KnownFinding, prop string) bool {
	if fc != nil && fc.NotClaim != "" {
		return false
	}
obls:
	for _, o := range fr.Obls {
		class := oblClass(o.Name)
		if !plan.classFilter(class) || o.Status == "discharged" || o.FailRes.Status == "sat" {
			continue
		}
		if fc != nil {
			for uc := range fc.Unclaimed {
				if class == uc || strings.HasPrefix(class, uc+":") || strings.HasPrefix(class, uc+"#") || (strings.HasSuffix(uc, "*") && strings.HasPrefix(class, strings.TrimSuffix(uc, "*"))) {
					continue obls
				}
			}
		}
		for _, k := range known {
			if k.Status == "open" && k.Property == prop && k.Obligation == o.Name {
				continue obls
			}
		}
		return true
	}
	return false
}

func (cr *checkRun) account(o *OblResult, fn *ssa.Function, fc *FuncContract, plan propertyPlan) {
	class := oblClass(o.Name)
	if !plan.classFilter(class) {
		return
	}
	if fc != nil {
		if fc.NotClaim != "" {
			cr.notDecided = append(cr.notDecided, o.Name+": "+fc.NotClaim)
			return
		}
		for uc, reason := range fc.Unclaimed {
			if class == uc || strings.HasPrefix(class, uc+":") || strings.HasPrefix(class, uc+"#") || (strings.HasSuffix(uc, "*") && strings.HasPrefix(class, strings.TrimSuffix(uc, "*"))) {
				cr.notDecided = append(cr.notDecided, o.Name+": "+reason+" (now: "+o.Status+")")
				return
			}
		}
	}
	cr.vcs += o.VCs
	if o.Disagree {
		cr.disagreements = append(cr.disagreements, o.Name)
	}
	if o.Status == "discharged" && !o.Disagree {
		cr.claimed++
		cr.discharge++
		if len(cr.samples) < 6 {
			cr.samples = append(cr.samples, map[string]interface{}{"obligation": o.Name, "text": o.Desc, "vcs": o.VCs, "solver": o.Solver, "time_s": round2(o.Time), "status": "discharged"})
		}
		return
	}
	// known finding?
	for _, k := range cr.known {
		if k.Status == "open" && k.Property == cr.prop && k.Obligation == o.Name {
			cr.knownHit = append(cr.knownHit, fmt.Sprintf("%s %s", o.Name, k.What))
			return
		}
	}
	cr.claimed++
	cr.failObligation(o.Name, o.Desc, fn, fc, o, o.FailRes)
}

func round2(f float64) float64 { return float64(int(f*100+0.5)) / 100 }

// failObligation: triage of a claimed obligation that did not discharge (DESIGN 2.5).
func (cr *checkRun) failObligation(name, desc string, fn *ssa.Function, fc *FuncContract, o *OblResult, res Result) {
	dir := filepath.Join(outDir(), "replays", cr.prop)
	os.MkdirAll(dir, 0o755)
	file := filepath.Join(dir, sanitize(name)+".json")
	rec := map[string]interface{}{
		"property":      cr.prop,
		"obligation":    name,
		"clause":        desc,
		"solver_status": res.Status,
		"solver":        res.Solver,
		"solver_output": truncate(res.Output, 4000),
		"tier":          cr.tier,
	}
	noInput := true
	if fn != nil && fc != nil && o != nil && o.Failing != nil && replayable(fn) {
		rec["function"] = cr.p.funcKeys[fn]
		// (i) the solver's model, replayed on the real code
		x := o.exec
		if x != nil {
			if rc, how := x.modelCase(o.Failing, cr.opts.depth, 10*time.Second); rc != nil {
				rec["model_from"] = how
				outs, raw, err := cr.p.runCases(fn, fc, []ReplayCase{*rc})
				if err != nil {
					rec["replay_error"] = err.Error() + "\n" + truncate(raw, 2000)
				} else if len(outs) == 1 {
					rec["model_replay"] = outs[0]
					if len(outs[0].Violated) > 0 {
						noInput = false
						rec["failing_input"] = outs[0].Case
						rec["real_result"] = outs[0].Result
						rec["violated"] = outs[0].Violated
					}
				}
			} else {
				rec["model_from"] = "no model: " + how
			}
		}
		// (ii) bounded search on the real code
		if noInput {
			alphabet, maxLen, limit := fc.Alphabet, fc.MaxLen, 20000
			if maxLen == 0 {
				maxLen = 5
			}
			if cr.tier == "thorough" {
				maxLen++
				limit = 150000
			}
			cases := enumCases(fn, alphabet, maxLen, limit)
			if len(cases) > 0 {
				outs, raw, err := cr.p.runCases(fn, fc, cases)
				if err != nil {
					rec["search_error"] = err.Error() + "\n" + truncate(raw, 2000)
				} else {
					rec["search"] = map[string]interface{}{"inputs": len(cases), "alphabet": alphabet, "max_len": maxLen}
					for _, ro := range outs {
						if len(ro.Violated) > 0 {
							noInput = false
							rec["failing_input"] = ro.Case
							rec["real_result"] = ro.Result
							rec["violated"] = ro.Violated
							break
						}
					}
				}
			}
		}
	}
	rec["failing_input_found"] = !noInput
	b, _ := json.MarshalIndent(rec, "", " ")
	os.WriteFile(file, b, 0o644)
	cr.violations = append(cr.violations, violation{Obligation: name, Replay: file, NoInput: noInput})
}

func sanitize(s string) string {
	r := strings.NewReplacer("/", "_", ":", "_", "*", "ptr", "(", "", ")", "", " ", "_", "$", "_", "#", "_", "@", "_at_")
	return r.Replace(s)
}

func truncate(s string, n int) string {
	if len(s) > n {
		return s[:n] + "…"
	}
	return s
}

func (cr *checkRun) extraChecks() {
	if cr.prop == "C20" {
		cr.formatStructural()
	}
	cr.runStandin()
}

// formatStructural: the structural side conditions that connect the contracts of the formatWriter
// functions to the property (C20): every write through the caller's writer happens inside the
// functions under contract, the sticky error is assigned only by (*formatWriter).s, and Format
// returns that field.
func (cr *checkRun) formatStructural() {
	allowed := map[string]bool{"format.(*formatWriter).s": true, "format.writeStrings": true, "format.writeTrimmedIndent": true, "format.fallbackStringWriter.WriteString": true}
	type finding struct{ name, desc, pos string }
	var bad []finding
	n := 0
	for _, fn := range cr.p.allFuncs {
		key := cr.p.funcKeys[fn]
		if !strings.HasPrefix(key, "format.") {
			continue
		}
		for _, b := range fn.Blocks {
			for _, in := range b.Instrs {
				if c, ok := in.(ssa.CallInstruction); ok && c.Common().IsInvoke() {
					m := normMethodName(c.Common().Method.FullName())
					if m == "(io.Writer).Write" || m == "(io.StringWriter).WriteString" {
						n++
						if !allowed[key] {
							bad = append(bad, finding{"format/struct:writes-only-under-contract@" + key, "a write through the caller's writer outside the functions under contract", cr.p.posStr(in.Pos())})
						}
					}
				}
				if st, ok := in.(*ssa.Store); ok {
					if fa, ok := st.Addr.(*ssa.FieldAddr); ok && namedStructPtr(fa.X.Type(), "formatWriter") {
						stt := fa.X.Type().Underlying().(*types.Pointer).Elem().Underlying().(*types.Struct)
						if stt.Field(fa.Field).Name() == "err" {
							n++
							if _, fresh := fa.X.(*ssa.Alloc); !fresh && key != "format.(*formatWriter).s" {
								bad = append(bad, finding{"format/struct:err-assigned-only-in-s@" + key, "the sticky error field is assigned outside (*formatWriter).s", cr.p.posStr(in.Pos())})
							}
						}
					}
				}
			}
		}
	}
	// Format returns fw.err
	if fn := cr.p.funcs["format.Format"]; fn != nil {
		ok := false
		for _, b := range fn.Blocks {
			for _, in := range b.Instrs {
				if r, isRet := in.(*ssa.Return); isRet && len(r.Results) == 1 {
					v := r.Results[0]
					for depth := 0; depth < 4; depth++ {
						u, isU := v.(*ssa.UnOp)
						if !isU {
							break
						}
						if fa, isF := u.X.(*ssa.FieldAddr); isF && namedStructPtr(fa.X.Type(), "formatWriter") {
							stt := fa.X.Type().Underlying().(*types.Pointer).Elem().Underlying().(*types.Struct)
							ok = stt.Field(fa.Field).Name() == "err"
							break
						}
						a, isA := u.X.(*ssa.Alloc)
						if !isA {
							break
						}
						var stored ssa.Value
						cnt := 0
						for _, ref := range *a.Referrers() {
							if s, isS := ref.(*ssa.Store); isS && s.Addr == a {
								stored, cnt = s.Val, cnt+1
							}
						}
						if cnt != 1 {
							break
						}
						v = stored
					}
				}
			}
		}
		n++
		if !ok {
			bad = append(bad, finding{"format/struct:Format-returns-sticky-error", "Format does not return the formatWriter's sticky error", ""})
		}
	}
	cr.claimed += 3
	seen := map[string]bool{}
	for _, f := range bad {
		if seen[f.name] {
			continue
		}
		seen[f.name] = true
		cr.failObligation(f.name, f.desc+" ["+f.pos+"]", nil, nil, nil, Result{Status: "structural-violation", Solver: "structural scan", Output: f.desc + " at " + f.pos})
	}
	cls := map[string]bool{}
	for k := range seen {
		cls[strings.SplitN(k, "@", 2)[0]] = true
	}
	cr.discharge += 3 - len(cls)
	cr.extra["format_structural"] = map[string]interface{}{"sites_examined": n, "violations": len(seen),
		"rules": []string{"every (io.Writer).Write / (io.StringWriter).WriteString call of package format is inside (*formatWriter).s, writeStrings, writeTrimmedIndent or fallbackStringWriter.WriteString",
			"formatWriter.err is assigned only in (*formatWriter).s (and at construction)", "Format returns fw.err"}}
}

// runFrame: the structural frame / determinism obligations of the property (DESIGN 2.6).
func (cr *checkRun) runFrame() {
	groups := map[string]bool{}
	for _, g := range frameGroups[cr.prop] {
		groups[g] = true
	}
	sums := cr.p.frameCheckGroups(groups)
	var entries []map[string]interface{}
	for _, s := range sums {
		// one obligation per (entry point, reachable function): writes(F) stay inside modifies(entry)
		cr.claimed += s.Functions
		bad := map[string]bool{}
		for _, v := range s.Viol {
			at := v.Name
			if i := strings.LastIndex(at, "@"); i >= 0 {
				at = at[i+1:]
			}
			known := false
			for _, k := range cr.known {
				if k.Status == "open" && k.Property == cr.prop && k.Obligation == v.Name {
					cr.knownHit = append(cr.knownHit, v.Name+" "+k.What)
					known = true
				}
			}
			if known {
				continue
			}
			if !bad[at] {
				bad[at] = true
			}
			cr.failObligation(v.Name, v.Desc+" ["+v.Pos+"]", nil, nil, nil, Result{Status: "frame-violation", Solver: "frame checker", Output: v.Desc + " at " + v.Pos})
		}
		cr.discharge += s.Functions - len(bad)
		entries = append(entries, map[string]interface{}{"entry": s.Entry, "functions_reachable": s.Functions, "write_sites": s.Writes, "violations": len(s.Viol)})
		if len(cr.samples) < 8 {
			cr.samples = append(cr.samples, map[string]interface{}{"obligation": "frame:" + s.Entry, "text": fmt.Sprintf("every store/append/copy/map update in the %d functions reachable from %s targets memory allocated in the call, or the caller's writable arguments; never a package-level variable or a read-only argument", s.Functions, s.Entry), "write_sites": s.Writes, "status": "discharged"})
		}
	}
	cr.extra["frame"] = entries
	cr.extra["frame_rules"] = []string{
		"abstract objects: allocation sites, entry-point parameters, package-level variables, values returned by user callbacks",
		"inclusion-based points-to over go/ssa, flow-insensitive, memory partitioned by static pointer type; tuple results per index",
		"calls through function values/interfaces resolve to every in-package function of identical signature whose address is taken, plus an unknown user implementation that does not write library memory",
		"external functions write only through the arguments listed in externEffect (strings.Builder, bytes.Buffer, utf8.EncodeRune/AppendRune, strconv.Append*)",
		"determinism: no range over a map, no go statement in reachable functions",
	}
	cr.assumptions = append(cr.assumptions,
		"frame checker: structural (no SMT); dependency packages keep no shared mutable state reachable through their API (cases.Fold() returns a fresh caser; html entity tables initialised under sync.Once)",
		"frame checker: user callbacks (FilterTag, WalkOptions, ReferenceMatcher, io.Reader/Writer) do not write library-owned memory")
}

// ---- evidence ----

func (cr *checkRun) writeEvidence() {
	solvers := map[string]interface{}{}
	solverStats.Range(func(k, v interface{}) bool {
		st := v.(*solverStat)
		solvers[k.(string)] = map[string]interface{}{"unsat": st.unsat, "sat": st.sat, "other": st.other, "time_s": round2(st.time)}
		return true
	})
	sort.Strings(cr.notDecided)
	if cr.samples == nil {
		cr.samples = []map[string]interface{}{}
	}
	trusted := []string{
		"go/packages + go/types + go/ssa (x/tools v0.29.0): SSA construction is the translation that is trusted",
		"govc VC generator and memory model (/verif/engine); guarded by the must-fail/must-pass corpus and cover queries",
		"SMT solvers z3 4.8.12, z3 5.1.0, cvc5 1.0.x (portfolio; thorough tier requires agreement of all that answer)",
		"spec predicates in /repo/contracts_verif.go, transcribed from CommonMark 0.30 / the property statement (DESIGN appendix B)",
		"Go compiler and runtime executing replays",
	}
	assumptions := append([]string{
		"Go int/int64 modelled as mathematical integers with a generated no-overflow obligation on every + - * (none assumed); narrower integer types modulo 2^n exactly",
		"slice/string lengths and capacities are at most 2^48 (runtime maxAlloc on 64-bit platforms)",
		"calls to functions outside the two packages use assumed contracts (DESIGN 4.2); functions with no assumed contract put the caller outside the subset",
		"package-level variables are read as fixed values (no function of the packages writes them after init; checked by the frame pass of C19)",
	}, cr.assumptions...)
	for k, r := range cr.p.contracts.FieldRanges {
		assumptions = append(assumptions, fmt.Sprintf("assumed range of %s: [%d, %d] — %s", k, r[0], r[1], cr.p.contracts.FieldRangeWhy[k]))
	}
	for _, s := range cr.p.contracts.Scan {
		assumptions = append(assumptions, "contract-file scan hit (assume/admit/trusted): "+s)
	}
	cov := map[string]interface{}{
		"obligations":              cr.claimed,
		"discharged":               cr.discharge,
		"checker_cmd":              fmt.Sprintf("/verif/bin/govc check --property %s --tier %s", cr.prop, cr.tier),
		"trusted_base":             trusted,
		"functions_under_contract": cr.funcs,
		"vcs":                      cr.vcs,
		"by_solver":                solvers,
		"cover_queries":            cr.covers,
		"vacuous":                  cr.vacuous,
		"not_decided":              cr.notDecided,
		"known_findings":           cr.knownHit,
		"outside_subset":           cr.outside,
		"bounded":                  cr.bounded,
		"samples":                  cr.samples,
		"solver_disagreements":     cr.disagreements,
		"per_vc_timeout_s":         cr.opts.timeout.Seconds(),
	}
	if ci, ok := propertyClauses[cr.prop]; ok {
		cov["clauses_decided"] = ci.decided
		cov["clauses_not_decided"] = ci.notDecided
	}
	for k, v := range cr.extra {
		cov[k] = v
	}
	ev := map[string]interface{}{
		"property_id": cr.prop,
		"tier":        cr.tier,
		"seed":        cr.seed,
		"level":       "proof",
		"coverage":    cov,
		"assumptions": assumptions,
		"wall_s":      round2(time.Since(cr.start).Seconds()),
		"violations":  len(cr.violations),
	}
	os.MkdirAll(filepath.Join(outDir(), "evidence"), 0o755)
	b, _ := json.MarshalIndent(ev, "", " ")
	os.WriteFile(filepath.Join(outDir(), "evidence", cr.prop+".json"), b, 0o644)
}

func (cr *checkRun) runSelftest() {
	var sel []SelftestEntry
	for _, e := range loadSelftests() {
		if cr.tier == "thorough" || contains(e.Property, cr.prop) {
			sel = append(sel, e)
		}
	}
	if len(sel) == 0 {
		cr.extra["mustfail"] = map[string]interface{}{"run": 0}
		return
	}
	opts := cr.opts
	opts.thorough = false
	opts.timeout = 10 * 1e9
	if cr.tier == "quick" {
		// rotate the starting point with the seed and stop starting entries after the budget
		if n := len(sel); n > 0 {
			k := ((cr.seed % n) + n) % n
			sel = append(append([]SelftestEntry(nil), sel[k:]...), sel[:k]...)
		}
		selftestDeadline = time.Now().Add(2 * time.Second)
		if len(sel) > 3 {
			sel = sel[:3] // the quick tier samples the corpus (rotating with VERIF_SEED); thorough runs all of it
		}
	}
	res := runSelftests(sel, cr.p.repoDir, opts, 3)
	mf := map[string]interface{}{}
	run, rej, stale, skipped := 0, 0, 0, 0
	var problems []string
	mpRun, mpOK := 0, 0
	for _, r := range res {
		if strings.HasPrefix(r.Detail, "skipped") {
			skipped++
			continue
		}
		if r.Kind == "mustfail" {
			run++
			if r.OK {
				rej++
			} else if strings.HasPrefix(r.Detail, "stale") {
				stale++
			} else {
				problems = append(problems, r.Name+": "+r.Detail)
			}
		} else {
			mpRun++
			if r.OK {
				mpOK++
			} else if strings.HasPrefix(r.Detail, "stale") {
				stale++
			} else {
				problems = append(problems, r.Name+": "+r.Detail)
			}
		}
	}
	mf["run"] = run
	mf["rejected"] = rej
	mf["stale_on_this_tree"] = stale
	mf["skipped_time_budget"] = skipped
	mf["problems"] = problems
	cr.extra["mustfail"] = mf
	cr.extra["mustpass"] = map[string]interface{}{"run": mpRun, "accepted": mpOK}
	for _, pr := range problems {
		fmt.Printf("SELFTEST-PROBLEM property=%s %s\n", cr.prop, pr)
	}
}

// ---- replay command ----

func cmdReplay(args []string) int {
	if len(args) < 1 {
		usage()
	}
	data, err := os.ReadFile(args[0])
	if err != nil {
		fmt.Fprintln(os.Stderr, err)
		return 2
	}
	var rec map[string]interface{}
	if err := json.Unmarshal(data, &rec); err != nil {
		fmt.Fprintln(os.Stderr, err)
		return 2
	}
	fmt.Printf("obligation: %v\nclause:     %v\nsolver:     %v (%v)\n", rec["obligation"], rec["clause"], rec["solver_status"], rec["solver"])
	if _, ok := rec["standin_input"]; ok {
		return replayStandin(rec)
	}
	fi, ok := rec["failing_input"]
	if !ok {
		fmt.Println("no failing input was recorded (no-failing-input-found); solver output:")
		fmt.Println(rec["solver_output"])
		return 1
	}
	fname, _ := rec["function"].(string)
	p, err := loadProgram("/repo", nil)
	if err != nil {
		fmt.Fprintln(os.Stderr, err)
		return 2
	}
	fn := p.funcs[fname]
	fc := p.contracts.Funcs[fname]
	if fn == nil || fc == nil {
		fmt.Fprintln(os.Stderr, "function or contract no longer exists:", fname)
		return 2
	}
	b, _ := json.Marshal(fi)
	var rc ReplayCase
	json.Unmarshal(b, &rc)
	outs, raw, err := p.runCases(fn, fc, []ReplayCase{rc})
	if err != nil {
		fmt.Fprintln(os.Stderr, err, raw)
		return 2
	}
	ob, _ := json.MarshalIndent(outs[0], "", " ")
	fmt.Println(string(ob))
	if len(outs[0].Violated) > 0 {
		fmt.Println("REPRODUCED: the real code violates", outs[0].Violated)
		return 1
	}
	fmt.Println("not reproduced on the current tree")
	return 0
}
