package main

// More assumed contracts of dependencies (DESIGN 4.2): x/net/html/atom,
// html.EscapeString, strconv.AppendInt, bytes.TrimLeft, ...; and the abstract
// value of a byte sequence handed to a pure callback.

import (
	"go/types"
	"sort"
	"strings"

	"golang.org/x/net/html/atom"
	"golang.org/x/tools/go/ssa"
)

// seqVal: the contents of a byte sequence as one abstract value.  Two
// sequences with equal length and equal bytes have equal values; instances of
// that extensionality axiom are added per pair of seqval terms of a VC
// (seqValAxioms).
func (x *Exec) seqVal(cur HeapView, s SV) *Term {
	if s.Arr != nil {
		return App("seqval", SInt, s.Arr, s.Off, s.Len)
	}
	key := "E:byte"
	if isStringType(s.Ty) {
		key = "S:byte"
	}
	x.registerKey(key, SArr2)
	var h *Term
	if cur != nil {
		h = x.heapGet(cur, key, SArr2)
	} else {
		h = Var("H0."+key, SArr2)
	}
	return App("seqval", SInt, Select(h, s.Id), s.Off, s.Len)
}

func collectApps(t *Term, name string, out map[string]*Term) {
	if t == nil {
		return
	}
	if t.Op == "app" && t.Name == name {
		out[t.String()] = t
	}
	for _, a := range t.Args {
		collectApps(a, name, out)
	}
}

// seqValAxioms: extensionality instances for every pair of seqval terms in the VC.
func seqValAxioms(assumes []*Term, goal *Term) []*Term {
	apps := map[string]*Term{}
	for _, a := range assumes {
		collectApps(a, "seqval", apps)
	}
	collectApps(goal, "seqval", apps)
	if len(apps) < 2 || len(apps) > 12 {
		return nil
	}
	var keys []string
	for k := range apps {
		keys = append(keys, k)
	}
	sort.Strings(keys)
	var out []*Term
	n := 0
	for i := 0; i < len(keys); i++ {
		for j := i + 1; j < len(keys); j++ {
			a, b := apps[keys[i]], apps[keys[j]]
			if hasBoundVar(a) || hasBoundVar(b) {
				continue
			}
			n++
			k := Var("k!sv"+itoa(n), SInt)
			same := And(Eq(a.Args[2], b.Args[2]), Forall([]*Term{k}, Implies(And(Le(IntC(0), k), Lt(k, a.Args[2])),
				Eq(Select(a.Args[0], Add(a.Args[1], k)), Select(b.Args[0], Add(b.Args[1], k))))))
			out = append(out, Implies(same, Eq(a, b)))
		}
	}
	return out
}

func hasBoundVar(t *Term) bool {
	if t.Op == "var" && strings.Contains(t.Name, "!q") {
		return true
	}
	for _, a := range t.Args {
		if hasBoundVar(a) {
			return true
		}
	}
	return false
}

func atomByName(n string) uint32 { return uint32(atom.Lookup([]byte(n))) }

func isAtomType(t types.Type) bool {
	n, ok := t.(*types.Named)
	return ok && n.Obj().Pkg() != nil && n.Obj().Pkg().Path() == "golang.org/x/net/html/atom" && n.Obj().Name() == "Atom"
}

// atomString: the name of an atom as a spec-level string.  For a constant atom
// the bytes are taken from the real table (x/net/html/atom, the version /repo
// builds with); for a symbolic one only the facts of atomAxioms are known.
func atomString(a *Term, ty types.Type) SV {
	if a.IsInt() && a.Int.IsInt64() {
		s := atom.Atom(uint32(a.Int.Int64())).String()
		sv := strConstSeq(s)
		sv.Id = App("atom.id", SInt, a)
		sv.Ty = ty
		return sv
	}
	return SV{K: KSeq, Ty: ty, Id: App("atom.id", SInt, a), Arr: App("atom.arr", SArrI, a), Off: IntC(0), Len: App("atom.len", SInt, a), Cap: App("atom.len", SInt, a)}
}

// atomAxioms: assumed facts about Atom.String for the atoms that occur symbolically in a VC:
// names are at most 32 bytes of lower-case letters, digits and hyphens (true of every entry of the table).
func atomAxioms(assumes []*Term, goal *Term) []*Term {
	apps := map[string]*Term{}
	for _, a := range assumes {
		collectApps(a, "atom.len", apps)
		collectApps(a, "atom.arr", apps)
	}
	collectApps(goal, "atom.len", apps)
	collectApps(goal, "atom.arr", apps)
	seen := map[string]bool{}
	var out []*Term
	var keys []string
	for k := range apps {
		keys = append(keys, k)
	}
	sort.Strings(keys)
	for _, k := range keys {
		a := apps[k].Args[0]
		if seen[a.String()] || hasBoundVar(a) {
			continue
		}
		seen[a.String()] = true
		ln := App("atom.len", SInt, a)
		arr := App("atom.arr", SArrI, a)
		out = append(out, And(Le(IntC(0), ln), Le(ln, IntC(32))))
		kv := Var("k!at"+itoa(len(out)), SInt)
		c := Select(arr, kv)
		ok := Or(And(Le(IntC('a'), c), Le(c, IntC('z'))), And(Le(IntC('0'), c), Le(c, IntC('9'))), Eq(c, IntC('-')))
		out = append(out, Forall([]*Term{kv}, Implies(And(Le(IntC(0), kv), Lt(kv, ln)), ok)))
	}
	return out
}

// atomConstsOf: the atom constants mentioned in a function (for the contract of atom.Lookup).
func atomConstsOf(fn *ssa.Function) []uint32 {
	seen := map[uint32]bool{}
	var out []uint32
	for _, b := range fn.Blocks {
		for _, in := range b.Instrs {
			for _, op := range in.Operands(nil) {
				if op == nil || *op == nil {
					continue
				}
				if c, ok := (*op).(*ssa.Const); ok && isAtomType(c.Type()) && c.Value != nil {
					if v, ok := constantToBig(c); ok && !seen[uint32(v.Int64())] {
						seen[uint32(v.Int64())] = true
						out = append(out, uint32(v.Int64()))
					}
				}
			}
		}
	}
	sort.Slice(out, func(i, j int) bool { return out[i] < out[j] })
	return out
}

func (x *Exec) externCall2(st *State, c *ssa.Call, f *ssa.Function, name string, args []SV) (SV, bool) {
	switch name {
	case "(golang.org/x/net/html/atom.Atom).String":
		return atomString(args[0].T, types.Typ[types.String]), true
	case "golang.org/x/net/html/atom.Lookup":
		// Lookup(s) is the atom whose name is s, or 0.  Stated for the atoms the caller mentions.
		s := args[0]
		r := x.freshOf(st, c.Type(), "atom.Lookup")
		for _, a := range atomConstsOf(st.top().fn) {
			nm := atom.Atom(a).String()
			if nm == "" {
				continue
			}
			st.assume(Eq(Eq(r.T, IntC(int64(a))), x.seqEqConst(st, s, nm)))
		}
		return r, true
	case "html.EscapeString":
		// assumed contract (DESIGN 4.2): the result contains none of < > " ' and every & in it starts
		// one of the five entities the function emits (spec Escaped of the contract file)
		r := x.freshString(st, c.Type(), "html.EscapeString")
		st.assume(x.specBool("Escaped", x.resolved(st, r), intSV(IntC(0), types.Typ[types.Int]), intSV(r.Len, types.Typ[types.Int])))
		return r, true
	case "strings.Trim", "bytes.Trim", "strings.TrimSpace", "bytes.TrimSpace", "bytes.TrimLeft", "strings.TrimLeft", "strings.TrimRight", "bytes.TrimRight":
		// the result is a sub-sequence s[a:b) of the argument (same backing store); the characters removed
		// belong to the cutset; for an ASCII cutset the ends of a non-empty result do not
		s0 := args[0]
		a := Var(x.freshName("trim.a"), SInt)
		b := Var(x.freshName("trim.b"), SInt)
		st.assume(And(Le(IntC(0), a), Le(a, b), Le(b, s0.Len)))
		left := !strings.HasSuffix(name, "Right")
		right := !strings.HasSuffix(name, "Left")
		if !left {
			st.assume(Eq(a, IntC(0)))
		}
		if !right {
			st.assume(Eq(b, s0.Len))
		}
		res := SV{K: KSeq, Ty: c.Type(), Id: s0.Id, Arr: s0.Arr, Off: Add(s0.Off, a), Len: Sub(b, a), Cap: Sub(b, a)}
		if !isStringType(c.Type()) && s0.Cap != nil {
			res.Cap = Sub(s0.Cap, a)
		}
		if !strings.HasSuffix(name, "Space") {
			if set, ok := x.prog.constOf(args[1]); ok {
				k := Var(x.freshName("k!tr"), SInt)
				st.assume(Forall([]*Term{k}, Implies(And(Le(IntC(0), k), Lt(k, s0.Len), Or(Lt(k, a), Ge(k, b))), x.inCharSet(x.byteAt(st, s0, k), set))))
				if left {
					st.assume(Implies(Lt(a, b), Not(x.inCharSet(x.byteAt(st, s0, a), set))))
				}
				if right {
					st.assume(Implies(Lt(a, b), Not(x.inCharSet(x.byteAt(st, s0, Sub(b, IntC(1))), set))))
				}
			}
		}
		return res, true
	case "golang.org/x/text/cases.Fold":
		return x.freshOf(st, c.Type(), "cases.Fold"), true
	case "(golang.org/x/text/cases.Caser).String":
		// Unicode case folding: a pure function of the argument's contents (assumed dependency)
		r := x.freshString(st, c.Type(), "casefold")
		st.assume(Eq(x.seqVal(st.heap, r), App("ext.casefold", SInt, x.seqVal(st.heap, args[1]))))
		return r, true
	case "html.UnescapeString", "strings.ToLower", "strings.Repeat":
		// a string about which nothing is assumed (trim results are sub-strings, but no caller under contract needs that yet)
		return x.freshString(st, c.Type(), name), true
	case "strings.Fields":
		// a fresh slice of non-empty strings
		n := x.freshOf(st, types.Typ[types.Int], "Fields.len")
		st.assume(And(Le(IntC(0), n.T), Le(n.T, MaxLenTerm)))
		id := x.allocRef(st)
		sl := SV{K: KSeq, Ty: c.Type(), Id: id, Off: IntC(0), Len: n.T, Cap: n.T}
		x.registerKey("E:string#len", SArr2)
		k := Var(x.freshName("k!fl"), SInt)
		st.assume(Forall([]*Term{k}, Implies(And(Le(IntC(0), k), Lt(k, n.T)), Ge(Select(Select(x.heapGet(st.heap, "E:string#len", SArr2), id), k), IntC(1)))))
		return sl, true
	case "strconv.AppendInt":
		// appends the decimal digits of the number, preceded by '-' if negative
		dst := args[0]
		arr := Var(x.freshName("digits"), SArrI)
		n := Var(x.freshName("ndigits"), SInt)
		st.assume(And(Le(IntC(1), n), Le(n, IntC(20))))
		kk := Var(x.freshName("k!dg"), SInt)
		ch := Select(arr, kk)
		st.assume(Forall([]*Term{kk}, Implies(And(Le(IntC(0), kk), Lt(kk, n)), Or(And(Le(IntC('0'), ch), Le(ch, IntC('9'))), And(Eq(kk, IntC(0)), Eq(ch, IntC('-')))))))
		t := SV{K: KSeq, Arr: arr, Off: IntC(0), Len: n, Cap: n}
		return x.appendCore(st, dst, t, types.Typ[types.Byte], "E:byte", c.Type()), true
	case "strings.LastIndexFunc", "strings.IndexFunc", "strings.IndexAny", "strings.LastIndexByte", "strings.LastIndex", "strings.Index":
		// an index into the first argument, or -1 (which one is not modelled)
		r := x.freshOf(st, types.Typ[types.Int], name)
		st.assume(And(Le(IntC(-1), r.T), Lt(r.T, args[0].Len)))
		return r, true
	case "strings.HasPrefix", "bytes.HasPrefix", "strings.HasSuffix", "bytes.HasSuffix":
		pre, ok := x.prog.constOf(args[1])
		if !ok {
			x.fail("%s with a non-constant affix", name)
		}
		s0 := args[0]
		cs := []*Term{Ge(s0.Len, IntC(int64(len(pre))))}
		for i := 0; i < len(pre); i++ {
			idx := IntC(int64(i))
			if strings.HasSuffix(name, "Suffix") {
				idx = Add(Sub(s0.Len, IntC(int64(len(pre)))), IntC(int64(i)))
			}
			cs = append(cs, Eq(x.byteAt(st, s0, idx), IntC(int64(pre[i]))))
		}
		return boolSV(And(cs...)), true
	case "fmt.Errorf", "errors.New":
		r := x.allocRef(st)
		return refSV(r, c.Type()), true
	}
	return SV{}, false
}


// freshString: a newly allocated string of unknown contents.
func (x *Exec) freshString(st *State, ty types.Type, hint string) SV {
	id := x.allocRef(st)
	n := Var(x.freshName(hint+"#len"), SInt)
	st.assume(And(Le(IntC(0), n), Le(n, MaxLenTerm)))
	x.registerKey("S:byte", SArr2)
	return SV{K: KSeq, Ty: ty, Id: id, Off: IntC(0), Len: n, Cap: n}
}

// resolved: the sequence with its contents array made explicit (for spec predicates).
func (x *Exec) resolved(st *State, s SV) SV {
	env := &CEnv{x: x, vars: map[string]SV{}, cur: st.heap, qn: &x.qn}
	return env.resolveSeq(s)
}

// specBool applies a (non-recursive or recursive) spec predicate of the contract file.
func (x *Exec) specBool(name string, args ...SV) *Term {
	if _, ok := x.prog.contracts.Specs[name]; !ok {
		x.fail("assumed contract needs spec %s, which the contract file does not define", name)
	}
	env := &CEnv{x: x, vars: map[string]SV{}, qn: &x.qn}
	var as []*CExpr
	for i, a := range args {
		nm := "$a" + itoa(i)
		env.vars[nm] = a
		as = append(as, &CExpr{Kind: "id", Str: nm})
	}
	return env.evalBool(&CExpr{Kind: "call", Str: name, Args: as})
}
