package main

import (
	"fmt"
	"go/token"
	"go/types"
	"math/big"
	"sort"
	"strings"

	"golang.org/x/tools/go/ssa"
)

func bigPow2(n uint) *big.Int    { return new(big.Int).Lsh(big.NewInt(1), n) }
func bigPow2m1(n uint) *big.Int  { return new(big.Int).Sub(bigPow2(n), big.NewInt(1)) }
func bigNegPow2(n uint) *big.Int { return new(big.Int).Neg(bigPow2(n)) }

type HeapView map[string]*Term

type Frame struct {
	fn       *ssa.Function
	regs     map[ssa.Value]SV
	cells    map[*ssa.Alloc]SV
	block    *ssa.BasicBlock
	idx      int
	prev     *ssa.BasicBlock
	loopSeen map[*ssa.BasicBlock]*loopVisit
	defers   []SV
	callSite *ssa.Call // in the parent frame; nil for the root frame
	params   []SV
	iters    map[*ssa.Range]*Term // position of string iterators
}

type loopVisit struct {
	measure *Term
	snap    *State // the state at the head of the iteration (after havoc and assumptions), for prev()
}

type Obligation struct {
	Name    string // stable obligation name
	Assumes []*Term
	Goal    *Term
	Desc    string
	PathID  int
	Pos     string
}

type State struct {
	frames  []*Frame
	heap    HeapView
	wm      *Term
	assumes []*Term
	entry   HeapView // heap at function entry
	entryWM *Term
	ghost   map[string]SV
	havocked bool // a havoccall happened on this path: the frame is not checked (the contract must say "modifies everything")
}

func (st *State) top() *Frame { return st.frames[len(st.frames)-1] }

func (st *State) clone() *State {
	n := &State{wm: st.wm, entry: st.entry, entryWM: st.entryWM, havocked: st.havocked}
	n.heap = make(HeapView, len(st.heap))
	for k, v := range st.heap {
		n.heap[k] = v
	}
	n.assumes = append([]*Term(nil), st.assumes...)
	n.frames = make([]*Frame, len(st.frames))
	for i, f := range st.frames {
		nf := *f
		nf.regs = make(map[ssa.Value]SV, len(f.regs))
		for k, v := range f.regs {
			nf.regs[k] = v
		}
		nf.cells = make(map[*ssa.Alloc]SV, len(f.cells))
		for k, v := range f.cells {
			nf.cells[k] = v
		}
		nf.loopSeen = make(map[*ssa.BasicBlock]*loopVisit, len(f.loopSeen))
		for k, v := range f.loopSeen {
			nf.loopSeen[k] = v
		}
		nf.defers = append([]SV(nil), f.defers...)
		if f.iters != nil {
			nf.iters = make(map[*ssa.Range]*Term, len(f.iters))
			for k, v := range f.iters {
				nf.iters[k] = v
			}
		}
		n.frames[i] = &nf
	}
	if st.ghost != nil {
		n.ghost = map[string]SV{}
		for k, v := range st.ghost {
			n.ghost[k] = v
		}
	}
	return n
}

func (st *State) assume(t *Term) {
	if t == nil || t.IsTrue() {
		return
	}
	st.assumes = append(st.assumes, t)
}

func copyHeap(h HeapView) HeapView {
	n := make(HeapView, len(h))
	for k, v := range h {
		n[k] = v
	}
	return n
}

// ---- Exec: per-function verification context ----

type Exec struct {
	prog             *Program
	fn               *ssa.Function
	fc               *FuncContract
	name             string // obligation prefix: pkg.Key
	obls             []*Obligation
	paths            int
	pathCap          int
	fresh            int
	keySort          map[string]Sort
	err              error // function outside subset / outside reach
	loops            map[*ssa.BasicBlock]*loopInfo
	escaping         map[*ssa.Alloc]bool
	params           map[string]SV
	results          []string
	warnings         []string
	inlineDepthCap   int
	covers           []*Obligation // reachability (must be sat) queries
	extraAssumptions map[string]bool
	currentLemma     string
	retPos           token.Pos
	pruned           int
	qn               int
	lastLocalMods    []*Loc
	fcIdents         map[string]bool
	clauseErr        error               // first site clause that could not be evaluated (see assertClause)
	renameMap        map[string]string   // contract identifier -> local variable it is taken to denote (rename fallback)
	renameCands      map[string][]string // unresolved identifier -> candidate locals (several unmentioned locals)
	qfForward        bool    // instantiation order used by the quantifier-free weakening of the current attempt
	pendingInv       []*Term // assumed field ranges of values read while evaluating a contract expression
}

type unsupported struct{ msg string }

func (x *Exec) fail(format string, args ...interface{}) {
	panic(unsupported{fmt.Sprintf(format, args...)})
}

func (x *Exec) freshName(hint string) string {
	x.fresh++
	return fmt.Sprintf("%s!%d", hint, x.fresh)
}

// epochKey marks a heap view all of whose unmentioned keys were havocked (by a call abstracted
// with havoccall): such keys read as "H<epoch>.<key>" instead of the entry heap "H0.<key>".
const epochKey = "$epoch"

func (x *Exec) heapGet(h HeapView, key string, s Sort) *Term {
	if t, ok := h[key]; ok {
		return t
	}
	if x.keySort == nil {
		x.keySort = map[string]Sort{}
	}
	x.keySort[key] = s
	if e, ok := h[epochKey]; ok && key != "S:byte" {
		return Var("H"+e.Name+"."+key, s)
	}
	return Var("H0."+key, s)
}

// havocAll: anything may have happened to the heap (strings are immutable and stay).
func (x *Exec) havocAll(st *State, keepTypes ...string) {
	keep, hasS := st.heap["S:byte"]
	kept := HeapView{}
	for _, tn := range keepTypes {
		if strings.HasPrefix(tn, "elems:") {
			en := strings.TrimPrefix(tn, "elems:")
			ep := "E:" + x.fn.Pkg.Pkg.Name() + "." + en
			if strings.HasPrefix(en, "*") {
				ep = "E:*" + x.fn.Pkg.Pkg.Name() + "." + en[1:]
			}
			if en == "byte" || en == "int" || en == "bool" || en == "string" {
				ep = "E:" + en // elements of basic type carry no package prefix
			}
			keyMu.Lock()
			var ks []string
			for k := range x.prog.keySorts {
				if k == ep || strings.HasPrefix(k, ep+"#") || strings.HasPrefix(k, ep+".") {
					ks = append(ks, k)
				}
			}
			keyMu.Unlock()
			sort.Strings(ks)
			for _, k := range ks {
				srt := x.sortOfKey(k)
				x.registerKey(k, srt)
				kept[k] = x.heapGet(st.heap, k, srt)
			}
			continue
		}
		if strings.HasPrefix(tn, "map:") {
			mp := "M:" + x.fn.Pkg.Pkg.Name() + "." + strings.TrimPrefix(tn, "map:")
			keyMu.Lock()
			var ks []string
			for k := range x.prog.keySorts {
				if strings.HasPrefix(k, mp+"#") || strings.HasPrefix(k, mp+".") {
					ks = append(ks, k)
				}
			}
			keyMu.Unlock()
			sort.Strings(ks)
			for _, k := range ks {
				srt := x.sortOfKey(k)
				x.registerKey(k, srt)
				kept[k] = x.heapGet(st.heap, k, srt)
			}
			continue
		}
		prefix := "F:" + x.fn.Pkg.Pkg.Name() + "." + tn + "."
		if strings.Contains(tn, ".") {
			// one field: its leaves are "<prefix>" itself, "<prefix>#id", "<prefix>.sub" ...
			prefix = "F:" + x.fn.Pkg.Pkg.Name() + "." + tn
		}
		keyMu.Lock()
		var ks []string
		for k := range x.prog.keySorts {
			if strings.HasPrefix(k, prefix) && (strings.HasSuffix(prefix, ".") || len(k) == len(prefix) || k[len(prefix)] == '#' || k[len(prefix)] == '.') {
				ks = append(ks, k)
			}
		}
		keyMu.Unlock()
		sort.Strings(ks)
		for _, k := range ks {
			kept[k] = x.heapGet(st.heap, k, x.sortOfKey(k))
		}
	}
	st.heap = kept
	if hasS {
		st.heap["S:byte"] = keep
	}
	st.heap[epochKey] = Var(x.freshName("e"), SInt)
	nw := Var(x.freshName("WM"), SInt)
	st.assume(Le(st.wm, nw))
	st.wm = nw
	st.havocked = true
}

func (x *Exec) registerKey(key string, s Sort) {
	if x.keySort == nil {
		x.keySort = map[string]Sort{}
	}
	if old, ok := x.keySort[key]; ok && old != s {
		x.fail("heap key %s used at sorts %s and %s", key, old, s)
	}
	x.keySort[key] = s
}

// freshOf creates a fresh symbolic value of Go type t, adding its type
// invariants (integer ranges, slice header well-formedness, "older than the
// allocation watermark") as assumptions.
func (x *Exec) freshOf(st *State, t types.Type, hint string) SV {
	switch typeKind(t) {
	case KInt:
		v := Var(x.freshName(hint), SInt)
		if lo, hi, ok := intRange(t); ok {
			st.assume(And(Le(lo, v), Le(v, hi)))
		}
		return intSV(v, t)
	case KBool:
		return boolSV(Var(x.freshName(hint), SBool))
	case KRef:
		v := Var(x.freshName(hint), SInt)
		st.assume(And(Le(IntC(0), v), Lt(v, st.wm)))
		return refSV(v, t)
	case KFunc:
		v := Var(x.freshName(hint), SInt)
		st.assume(And(Le(IntC(0), v), Lt(v, st.wm)))
		return SV{K: KFunc, T: v, Ty: t}
	case KSeq:
		s := SV{K: KSeq, Ty: t,
			Id:  Var(x.freshName(hint+"#id"), SInt),
			Off: Var(x.freshName(hint+"#off"), SInt),
			Len: Var(x.freshName(hint+"#len"), SInt),
			Cap: Var(x.freshName(hint+"#cap"), SInt)}
		x.assumeSeqWF(st, s)
		return s
	case KStruct:
		stt := t.Underlying().(*types.Struct)
		s := SV{K: KStruct, Ty: t}
		for i := 0; i < stt.NumFields(); i++ {
			s.Fields = append(s.Fields, x.freshOf(st, stt.Field(i).Type(), hint+"."+stt.Field(i).Name()))
		}
		return s
	case KTuple:
		tt := t.(*types.Tuple)
		s := SV{K: KTuple, Ty: t}
		for i := 0; i < tt.Len(); i++ {
			s.Fields = append(s.Fields, x.freshOf(st, tt.At(i).Type(), fmt.Sprintf("%s.%d", hint, i)))
		}
		return s
	}
	x.fail("freshOf: unsupported type %s", t)
	return SV{}
}

func (x *Exec) assumeSeqWF(st *State, s SV) {
	st.assume(And(Le(IntC(0), s.Id), Lt(s.Id, st.wm), Le(IntC(0), s.Off), Le(IntC(0), s.Len), Le(s.Len, s.Cap),
		Le(Add(s.Off, s.Cap), MaxLenTerm), Le(s.Cap, MaxLenTerm)))
	// the nil slice has no backing store and no elements
	st.assume(Implies(Eq(s.Id, IntC(0)), Eq(s.Cap, IntC(0))))
}

func (x *Exec) zeroOf(t types.Type) SV {
	switch typeKind(t) {
	case KInt:
		return intSV(IntC(0), t)
	case KBool:
		return boolSV(tFalse)
	case KRef:
		if _, isArr := t.Underlying().(*types.Array); isArr {
			x.fail("zero value of array type %s (array-valued fields are outside the subset)", t)
		}
		return refSV(IntC(0), t)
	case KFunc:
		return SV{K: KFunc, T: IntC(0), Ty: t}
	case KSeq:
		return SV{K: KSeq, Ty: t, Id: IntC(0), Off: IntC(0), Len: IntC(0), Cap: IntC(0)}
	case KStruct:
		stt := t.Underlying().(*types.Struct)
		s := SV{K: KStruct, Ty: t}
		for i := 0; i < stt.NumFields(); i++ {
			s.Fields = append(s.Fields, x.zeroOf(stt.Field(i).Type()))
		}
		return s
	}
	x.fail("zeroOf: unsupported type %s", t)
	return SV{}
}

// leafTerms flattens a value to its scalar leaves in the order of leavesOf.
func (x *Exec) leafTerms(v SV) []*Term {
	switch v.K {
	case KInt, KBool, KRef:
		if v.T == nil {
			x.fail("interior/local pointer stored where a heap reference is needed")
		}
		return []*Term{v.T}
	case KFunc:
		if v.T == nil {
			// static function value: give it a stable opaque id
			return []*Term{x.funcID(v)}
		}
		return []*Term{v.T}
	case KSeq:
		if v.Arr != nil && v.Id == nil {
			x.fail("spec-level sequence stored to memory")
		}
		return []*Term{v.Id, v.Off, v.Len, v.Cap}
	case KStruct, KTuple:
		var out []*Term
		for _, f := range v.Fields {
			out = append(out, x.leafTerms(f)...)
		}
		return out
	}
	x.fail("leafTerms: kind %d", v.K)
	return nil
}

func (x *Exec) funcID(v SV) *Term {
	if v.Fn != nil {
		return App("funcid."+v.Fn.String(), SInt)
	}
	return v.T
}

// fromLeaves rebuilds a value of type t from leaf terms.
func (x *Exec) fromLeaves(t types.Type, ts []*Term) (SV, []*Term) {
	switch typeKind(t) {
	case KInt:
		return intSV(ts[0], t), ts[1:]
	case KBool:
		return boolSV(ts[0]), ts[1:]
	case KRef:
		return refSV(ts[0], t), ts[1:]
	case KFunc:
		return SV{K: KFunc, T: ts[0], Ty: t}, ts[1:]
	case KSeq:
		return SV{K: KSeq, Ty: t, Id: ts[0], Off: ts[1], Len: ts[2], Cap: ts[3]}, ts[4:]
	case KStruct:
		stt := t.Underlying().(*types.Struct)
		s := SV{K: KStruct, Ty: t}
		for i := 0; i < stt.NumFields(); i++ {
			var f SV
			f, ts = x.fromLeaves(stt.Field(i).Type(), ts)
			s.Fields = append(s.Fields, f)
		}
		return s, ts
	}
	x.fail("fromLeaves: unsupported type %s", t)
	return SV{}, nil
}

// typeAt returns the type reached from t by following struct field path.
func typeAt(t types.Type, path []int) types.Type {
	for _, i := range path {
		t = t.Underlying().(*types.Struct).Field(i).Type()
	}
	return t
}

func pathSuffix(t types.Type, path []int) string {
	s := ""
	for _, i := range path {
		f := t.Underlying().(*types.Struct).Field(i)
		s += "." + f.Name()
		t = f.Type()
	}
	return s
}

func getPath(v SV, path []int) SV {
	for _, i := range path {
		v = v.Fields[i]
	}
	return v
}

func setPath(v SV, path []int, nv SV) SV {
	if len(path) == 0 {
		return nv
	}
	c := v
	c.Fields = append([]SV(nil), v.Fields...)
	c.Fields[path[0]] = setPath(v.Fields[path[0]], path[1:], nv)
	return c
}

// heap keys for the leaves of the value stored at loc.
func (x *Exec) heapKeysFor(l *Loc) (keys []string, sorts []Sort, vt types.Type, outer bool) {
	switch {
	case l.Ref != nil:
		vt = typeAt(l.RefTy, l.Path)
		base := "F:" + typeName(l.RefTy) + pathSuffix(l.RefTy, l.Path)
		if typeKind(l.RefTy) != KStruct {
			base = "P:" + typeName(l.RefTy)
		}
		for _, lf := range leavesOf(vt) {
			keys = append(keys, base+lf.suffix)
			sorts = append(sorts, arrayOf(lf.sort))
		}
		return keys, sorts, vt, false
	case l.Slice != nil:
		vt = typeAt(l.ElemTy, l.Path)
		base := elemKeyBase(l.ElemTy) + pathSuffix(l.ElemTy, l.Path)
		if l.Str || isStringType(l.Slice.Ty) {
			base = "S:byte"
		}
		for _, lf := range leavesOf(vt) {
			keys = append(keys, base+lf.suffix)
			sorts = append(sorts, arrayOf(arrayOf(lf.sort)))
		}
		return keys, sorts, vt, true
	}
	x.fail("heapKeysFor: not a heap location")
	return
}

func (x *Exec) load(st *State, l *Loc) SV {
	return x.loadFrom(st, st.heap, l, true)
}

func (x *Exec) loadFrom(st *State, h HeapView, l *Loc, addAssumes bool) SV {
	switch {
	case l.Alloc != nil:
		fr := st.top()
		v, ok := fr.cells[l.Alloc]
		if !ok {
			// search enclosing frames (closures never see caller cells; this is for safety)
			for i := len(st.frames) - 1; i >= 0; i-- {
				if vv, ok2 := st.frames[i].cells[l.Alloc]; ok2 {
					v, ok = vv, true
					break
				}
			}
		}
		if !ok {
			x.fail("load from unknown local cell %s", l.Alloc.Name())
		}
		return getPath(v, l.Path)
	case l.Global != nil:
		return x.loadGlobal(st, l)
	}
	keys, sorts, vt, outer := x.heapKeysFor(l)
	var ts []*Term
	for i, k := range keys {
		x.registerKey(k, sorts[i])
		arr := x.heapGet(h, k, sorts[i])
		var v *Term
		if outer && l.Slice.Arr != nil && len(keys) == 1 {
			v = Select(l.Slice.Arr, Add(l.Slice.Off, l.Index))
		} else if outer {
			v = Select(Select(arr, l.Slice.Id), Add(l.Slice.Off, l.Index))
		} else {
			v = Select(arr, l.Ref)
		}
		ts = append(ts, v)
	}
	sv, _ := x.fromLeaves(vt, ts)
	if addAssumes {
		x.assumeTypeInv(st, sv)
	}
	if fr := x.prog.contracts.FieldRanges; len(fr) > 0 {
		for i, k := range keys {
			if r, ok := fr[k]; ok {
				a := And(Le(IntC(r[0]), ts[i]), Le(ts[i], IntC(r[1])))
				if st != nil {
					st.assume(a)
				} else {
					x.pendingInv = append(x.pendingInv, a)
				}
			}
		}
	}
	return sv
}

// assumeTypeInv adds the type invariants of a value read from memory.
func (x *Exec) assumeTypeInv(st *State, v SV) {
	switch v.K {
	case KInt:
		if lo, hi, ok := intRange(v.Ty); ok && !v.T.IsInt() {
			st.assume(And(Le(lo, v.T), Le(v.T, hi)))
		}
	case KRef, KFunc:
		if v.T != nil && !v.T.IsInt() {
			st.assume(And(Le(IntC(0), v.T), Lt(v.T, st.wm)))
		}
	case KSeq:
		if !v.Id.IsInt() {
			x.assumeSeqWF(st, v)
		}
	case KStruct, KTuple:
		for _, f := range v.Fields {
			x.assumeTypeInv(st, f)
		}
	}
}

func (x *Exec) store(st *State, l *Loc, v SV) {
	switch {
	case l.Alloc != nil:
		for i := len(st.frames) - 1; i >= 0; i-- {
			if old, ok := st.frames[i].cells[l.Alloc]; ok {
				st.frames[i].cells[l.Alloc] = setPath(old, l.Path, v)
				return
			}
		}
		x.fail("store to unknown local cell %s", l.Alloc.Name())
	case l.Global != nil:
		x.fail("store to package-level variable %s", l.Global.Name())
	}
	keys, sorts, _, outer := x.heapKeysFor(l)
	ts := x.leafTerms(v)
	if len(ts) != len(keys) {
		x.fail("store: leaf count mismatch (%d vs %d) at %v", len(ts), len(keys), keys)
	}
	for i, k := range keys {
		x.registerKey(k, sorts[i])
		arr := x.heapGet(st.heap, k, sorts[i])
		if outer {
			inner := Select(arr, l.Slice.Id)
			st.heap[k] = Store(arr, l.Slice.Id, Store(inner, Add(l.Slice.Off, l.Index), ts[i]))
		} else {
			st.heap[k] = Store(arr, l.Ref, ts[i])
		}
	}
}

func (x *Exec) loadGlobal(st *State, l *Loc) SV {
	g := l.Global
	t := typeAt(g.Type().(*types.Pointer).Elem(), l.Path)
	name := "G:" + g.Pkg.Pkg.Name() + "." + g.Name() + pathSuffix(g.Type().(*types.Pointer).Elem(), l.Path)
	// Package-level variables are read as fixed (but unknown) values: the
	// frame checker shows nothing in the two packages writes them after init.
	switch typeKind(t) {
	case KInt:
		return intSV(App(name, SInt), t)
	case KBool:
		return boolSV(App(name, SBool))
	case KRef, KFunc:
		v := App(name, SInt)
		st.assume(And(Le(IntC(0), v), Lt(v, st.entryWM)))
		if typeKind(t) == KFunc {
			return SV{K: KFunc, T: v, Ty: t}
		}
		sv := refSV(v, t)
		if g.Pkg.Pkg.Path() == "io" && g.Name() == "EOF" {
			// assumed fact about the dependency: io.EOF is a non-nil error value
			st.assume(Ne(v, IntC(0)))
		}
		return sv
	case KSeq:
		s := SV{K: KSeq, Ty: t, Id: App(name+"#id", SInt), Off: App(name+"#off", SInt), Len: App(name+"#len", SInt), Cap: App(name+"#cap", SInt)}
		x.assumeSeqWF(st, s)
		return s
	}
	x.fail("load of package-level variable %s of type %s", g.Name(), t)
	return SV{}
}
