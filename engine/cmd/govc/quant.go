package main

// Explicit quantifier instantiation.  SMT solvers normalise linear arithmetic
// before E-matching, so a pattern like (select a (+ off k)) does not match the
// ground term (select a (+ off i 1)).  Here every bounded quantifier whose body
// reads an array at an index k+r is conjoined (∀) or disjoined (∃) with its
// instances at the ground indices at which the same array is read elsewhere in
// the VC.  ∀k.B ≡ (∀k.B) ∧ B(t) and ∃k.B ≡ (∃k.B) ∨ B(t), so the rewriting is
// an equivalence in every polarity; the original quantifier is kept.

import (
	"crypto/sha256"
	"encoding/hex"
	"math/big"
	"sort"
	"strconv"
	"strings"
)

func itoa(i int) string { return strconv.Itoa(i) }
func shortHash(s string) string {
	h := sha256.Sum256([]byte(s))
	return hex.EncodeToString(h[:4])
}

type linForm struct {
	coef  map[string]*big.Int
	atoms map[string]*Term
	c     *big.Int
}

func newLin() *linForm {
	return &linForm{coef: map[string]*big.Int{}, atoms: map[string]*Term{}, c: new(big.Int)}
}

func (l *linForm) addAtom(t *Term, k *big.Int) {
	key := t.String()
	if cur, ok := l.coef[key]; ok {
		cur.Add(cur, k)
		if cur.Sign() == 0 {
			delete(l.coef, key)
			delete(l.atoms, key)
		}
		return
	}
	if k.Sign() == 0 {
		return
	}
	l.coef[key] = new(big.Int).Set(k)
	l.atoms[key] = t
}

func linearize(t *Term, scale *big.Int, out *linForm) {
	switch {
	case t.Op == "int":
		out.c.Add(out.c, new(big.Int).Mul(scale, t.Int))
	case t.Op == "app" && t.Name == "+":
		for _, a := range t.Args {
			linearize(a, scale, out)
		}
	case t.Op == "app" && t.Name == "-" && len(t.Args) == 2:
		linearize(t.Args[0], scale, out)
		linearize(t.Args[1], new(big.Int).Neg(scale), out)
	case t.Op == "app" && t.Name == "-" && len(t.Args) == 1:
		linearize(t.Args[0], new(big.Int).Neg(scale), out)
	case t.Op == "app" && t.Name == "*" && len(t.Args) == 2 && t.Args[0].IsInt():
		linearize(t.Args[1], new(big.Int).Mul(scale, t.Args[0].Int), out)
	case t.Op == "app" && t.Name == "*" && len(t.Args) == 2 && t.Args[1].IsInt():
		linearize(t.Args[0], new(big.Int).Mul(scale, t.Args[1].Int), out)
	default:
		out.addAtom(t, scale)
	}
}

func (l *linForm) term() *Term {
	var keys []string
	for k := range l.coef {
		keys = append(keys, k)
	}
	sort.Strings(keys)
	var res *Term
	for _, k := range keys {
		c := l.coef[k]
		var part *Term
		if c.IsInt64() && c.Int64() == 1 {
			part = l.atoms[k]
		} else {
			part = App("*", SInt, BigC(c), l.atoms[k])
		}
		if res == nil {
			res = part
		} else {
			res = App("+", SInt, res, part)
		}
	}
	if res == nil {
		return BigC(l.c)
	}
	if l.c.Sign() != 0 {
		res = App("+", SInt, res, BigC(l.c))
	}
	return res
}

// solveIndex: given index expression e (mentions bound variable k with
// coefficient 1) and ground index g, returns t with e[k:=t] == g.
func solveIndex(e *Term, k *Term, g *Term) *Term {
	le := newLin()
	linearize(e, big.NewInt(1), le)
	kk := k.String()
	c, ok := le.coef[kk]
	if !ok || !c.IsInt64() || (c.Int64() != 1 && c.Int64() != -1) {
		return nil
	}
	neg := c.Int64() == -1
	delete(le.coef, kk)
	delete(le.atoms, kk)
	// e = ±k + rest:  k = g - rest   or   k = rest - g
	res := newLin()
	sign := big.NewInt(1)
	if neg {
		sign = big.NewInt(-1)
	}
	linearize(g, sign, res)
	for key, co := range le.coef {
		res.addAtom(le.atoms[key], new(big.Int).Mul(new(big.Int).Neg(sign), co))
	}
	res.c.Sub(res.c, new(big.Int).Mul(sign, le.c))
	return res.term()
}

type groundRead struct {
	arr  *Term
	idx  *Term
	base string
	row  string   // exactRow(arr), precomputed for the ground reads of a context
	lin  *linForm // linearize(idx), precomputed likewise
}

// solveIndexLin is solveIndex with both sides already linearized: le is e without its ±k part.
func solveIndexLin(le *linForm, neg bool, gl *linForm) *linForm {
	res := newLin()
	sign := int64(1)
	if neg {
		sign = -1
	}
	bs := big.NewInt(sign)
	for key, co := range gl.coef {
		res.coef[key] = new(big.Int).Mul(bs, co)
		res.atoms[key] = gl.atoms[key]
	}
	res.c.Mul(bs, gl.c)
	ns := big.NewInt(-sign)
	for key, co := range le.coef {
		res.addAtom(le.atoms[key], new(big.Int).Mul(ns, co))
	}
	res.c.Sub(res.c, new(big.Int).Mul(bs, le.c))
	return res
}

// key identifies the linear form without building its term.
func (l *linForm) key() string {
	keys := make([]string, 0, len(l.coef))
	for k := range l.coef {
		keys = append(keys, k)
	}
	sort.Strings(keys)
	var sb strings.Builder
	for _, k := range keys {
		sb.WriteString(l.coef[k].String())
		sb.WriteByte('*')
		sb.WriteString(k)
		sb.WriteByte('+')
	}
	sb.WriteString(l.c.String())
	return sb.String()
}

func collectGroundReads(t *Term, bound map[string]bool, out *[]groundRead, seen map[string]bool) {
	switch t.Op {
	case "app":
		if t.Name == "select" {
			if !mentionsBound(t, bound) {
				key := t.String()
				if !seen[key] {
					seen[key] = true
					*out = append(*out, groundRead{arr: t.Args[0], idx: t.Args[1]})
				}
			}
		}
		if t.Name == "store" && !mentionsBound(t, bound) {
			// a write is also a relevant index for the array being written
			key := "st:" + t.String()
			if !seen[key] {
				seen[key] = true
				*out = append(*out, groundRead{arr: t, idx: t.Args[1]})
			}
		}
		for _, a := range t.Args {
			collectGroundReads(a, bound, out, seen)
		}
	case "forall", "exists":
		nb := map[string]bool{}
		for k := range bound {
			nb[k] = true
		}
		for _, b := range t.Bound {
			nb[b.Name] = true
		}
		collectGroundReads(t.Args[0], nb, out, seen)
	}
}

// baseArray strips stores: reads of store(a,i,v) are relevant to quantifiers over a.
// exactRow: the matching key that also names the row (used to rank candidates: reads of syntactically the same row first).
func exactRow(a *Term) string {
	for a.Op == "app" && a.Name == "store" {
		a = a.Args[0]
	}
	if a.Op == "app" && a.Name == "select" && len(a.Args) == 2 && (a.Args[0].Sort == SArr2 || a.Args[0].Sort == SAr2B) {
		o := a.Args[0]
		for o.Op == "app" && o.Name == "store" {
			o = o.Args[0]
		}
		return o.String() + "@" + a.Args[1].String()
	}
	return a.String()
}

func baseArray(a *Term) *Term {
	for a.Op == "app" && a.Name == "store" {
		a = a.Args[0]
	}
	// a row of a two-level heap: rows named by different terms may be the same row (the ids may be provably equal),
	// so the row id is not part of the matching key; instantiating on a read of another row is sound, only redundant
	if a.Op == "app" && a.Name == "select" && len(a.Args) == 2 && (a.Args[0].Sort == SArr2 || a.Args[0].Sort == SAr2B) {
		o := a.Args[0]
		for o.Op == "app" && o.Name == "store" {
			o = o.Args[0]
		}
		return &Term{Op: "app", Name: "row", Sort: a.Sort, Args: []*Term{o}}
	}
	// row id of a two-level heap: ignore the stores to (other) rows of the outer heap
	if a.Op == "app" && a.Name == "select" && len(a.Args) == 2 && (a.Args[0].Sort == SArr2 || a.Args[0].Sort == SAr2B) {
		o := a.Args[0]
		changed := false
		for o.Op == "app" && o.Name == "store" {
			o = o.Args[0]
			changed = true
		}
		if changed {
			return &Term{Op: "app", Name: "select", Sort: a.Sort, Args: []*Term{o, a.Args[1]}}
		}
	}
	return a
}

// bodyReads: selects in a quantifier body whose index mentions the bound variable.
func bodyReads(t *Term, k *Term, out *[]groundRead) {
	if t.Op == "app" {
		if t.Name == "select" && mentionsBound(t.Args[1], map[string]bool{k.Name: true}) &&
			!mentionsBound(t.Args[0], map[string]bool{k.Name: true}) {
			*out = append(*out, groundRead{arr: t.Args[0], idx: t.Args[1]})
		}
		for _, a := range t.Args {
			bodyReads(a, k, out)
		}
	}
	if t.Op == "forall" || t.Op == "exists" {
		bodyReads(t.Args[0], k, out)
	}
}

const maxInstPerQuant = 16

type quantExpander struct {
	reads []groundRead
	total int
	cap   int
}

func (qe *quantExpander) expand(t *Term, bound map[string]bool) *Term {
	switch t.Op {
	case "app":
		changed := false
		args := make([]*Term, len(t.Args))
		for i, a := range t.Args {
			args[i] = qe.expand(a, bound)
			if args[i] != a {
				changed = true
			}
		}
		if !changed {
			return t
		}
		return &Term{Op: "app", Name: t.Name, Sort: t.Sort, Args: args}
	case "forall", "exists":
		if len(t.Bound) != 1 || len(bound) > 0 {
			return t
		}
		k := t.Bound[0]
		body := t.Args[0]
		var brs []groundRead
		bodyReads(body, k, &brs)
		if len(brs) == 0 {
			return t
		}
		cands := map[string]*Term{}
		var order []string
		for _, br := range brs {
			bb := baseArray(br.arr).String()
			for _, gr := range qe.reads {
				if gr.base != bb {
					continue
				}
				c := solveIndex(br.idx, k, gr.idx)
				if c == nil {
					continue
				}
				key := c.String()
				if _, ok := cands[key]; !ok {
					cands[key] = c
					order = append(order, key)
				}
			}
		}
		if len(order) == 0 {
			return t
		}
		sort.Slice(order, func(i, j int) bool {
			if len(order[i]) != len(order[j]) {
				return len(order[i]) < len(order[j])
			}
			return order[i] < order[j]
		})
		if len(order) > maxInstPerQuant {
			order = order[:maxInstPerQuant]
		}
		parts := []*Term{t}
		for _, key := range order {
			if qe.total >= qe.cap {
				break
			}
			qe.total++
			parts = append(parts, subst(body, map[string]*Term{k.Name: cands[key]}))
		}
		if t.Op == "forall" {
			return App("and", SBool, parts...)
		}
		return App("or", SBool, parts...)
	}
	return t
}

// expandQuantifiers rewrites assumptions and goal with explicit instances.
func expandQuantifiers(assumes []*Term, goal *Term, rounds int) ([]*Term, *Term) {
	hasQ := false
	for _, a := range assumes {
		if strings.Contains(a.String(), "(forall") || strings.Contains(a.String(), "(exists") {
			hasQ = true
			break
		}
	}
	if !hasQ && goal != nil {
		s := goal.String()
		hasQ = strings.Contains(s, "(forall") || strings.Contains(s, "(exists")
	}
	if !hasQ {
		return assumes, goal
	}
	// Skolem witnesses: for a closed ∀k.B there is a constant sk with B(sk) ⇒ ∀k.B
	// (a counterexample if one exists); for ∃k.B one with (∃k.B) ⇒ B(sk).
	// These are conservative extensions and give the instantiation below the
	// index terms that proofs by "there is an offending position" need.
	closed := map[string]*Term{}
	var order []string
	var findClosed func(t *Term)
	findClosed = func(t *Term) {
		switch t.Op {
		case "app":
			for _, a := range t.Args {
				findClosed(a)
			}
		case "forall", "exists":
			key := t.String()
			if _, ok := closed[key]; !ok {
				closed[key] = t
				order = append(order, key)
			}
		}
	}
	for _, a := range assumes {
		findClosed(a)
	}
	if goal != nil {
		findClosed(goal)
	}
	sort.Strings(order)
	if len(order) > 60 {
		order = order[:60]
	}
	assumes = append([]*Term(nil), assumes...)
	for i, key := range order {
		q := closed[key]
		if len(q.Bound) != 1 {
			continue
		}
		sk := Var("sk!"+itoa(i)+"!"+shortHash(key), SInt)
		inst := subst(q.Args[0], map[string]*Term{q.Bound[0].Name: sk})
		if q.Op == "forall" {
			assumes = append(assumes, Implies(inst, q))
		} else {
			assumes = append(assumes, Implies(q, inst))
		}
	}
	// Rounds: instances introduce new ground reads (e.g. the source position of a
	// copied element), which in turn are instantiation points for other facts.
	out := assumes
	g := goal
	prevReads := -1
	for round := 0; round < rounds; round++ {
		qe := &quantExpander{cap: 900}
		seen := map[string]bool{}
		for _, a := range out {
			collectGroundReads(a, nil, &qe.reads, seen)
		}
		if g != nil {
			collectGroundReads(g, nil, &qe.reads, seen)
		}
		if len(qe.reads) == prevReads {
			break
		}
		prevReads = len(qe.reads)
		for i := range qe.reads {
			qe.reads[i].base = baseArray(qe.reads[i].arr).String()
		}
		next := make([]*Term, len(assumes))
		for i, a := range assumes {
			next[i] = qe.expand(a, nil)
		}
		out = next
		if goal != nil {
			g = qe.expand(goal, nil)
		}
	}
	return out, g
}

// ---------------------------------------------------------------------------
// Quantifier-free weakening.  Γ = assumptions ∪ {¬goal}.  Every closed
// quantifier occurrence Q is replaced by a quantifier-free R such that Γ only
// gets weaker (so unsat(Γ') implies unsat(Γ)): with a Skolem constant sk chosen
// so that (∀k.B) ⇔ B(sk) (a counterexample if there is one), resp. (∃k.B) ⇔ B(sk),
//   Γ-positive ∀k.B  ↦  B(sk) ∧ B(t1) ∧ … ∧ B(tn)      (Q ⇒ R)
//   Γ-negative ∀k.B  ↦  B(sk)                          (R ⇒ Q)
//   Γ-positive ∃k.B  ↦  B(sk)
//   Γ-negative ∃k.B  ↦  B(sk) ∨ B(t1) ∨ … ∨ B(tn)
//   mixed polarity    ↦  B(sk)
// where t1…tn are the ground indices at which the arrays read in B are read
// elsewhere in Γ.  The result is decidable (arrays + linear integers + EUF).
// ---------------------------------------------------------------------------

type qfCtx struct {
	candCap int
	reads []groundRead
	sk    map[string]*Term
	nsk   int
	insts int
	cap   int
}

func (c *qfCtx) skolem(q *Term) *Term {
	key := q.String()
	if s, ok := c.sk[key]; ok {
		return s
	}
	c.nsk++
	s := Var("qsk!"+itoa(c.nsk)+"!"+shortHash(key), SInt)
	c.sk[key] = s
	return s
}

func (c *qfCtx) candidates(q *Term) []*Term {
	k := q.Bound[0]
	var all []groundRead
	bodyReads(q.Args[0], k, &all)
	// principal reads: per array, the read(s) at the smallest constant offset from k
	// (s[k] rather than s[k+1], s[k+2]…): instantiating on every read of a wide
	// body multiplies the instances without helping
	type pr struct {
		r groundRead
		c int64
		b string
	}
	var prs []pr
	minOff := map[string]int64{}
	for _, br := range all {
		lf := newLin()
		linearize(br.idx, big.NewInt(1), lf)
		off := int64(0)
		if lf.c.IsInt64() {
			off = lf.c.Int64()
		}
		if co, ok := lf.coef[k.String()]; ok && co.Sign() < 0 {
			off = -off
		}
		b := baseArray(br.arr).String()
		// distinguish reads whose non-constant part differs (e.g. off+k and off+len+k)
		delete(lf.coef, k.String())
		var ks []string
		for key := range lf.coef {
			ks = append(ks, key+"*"+lf.coef[key].String())
		}
		sort.Strings(ks)
		gk := b + "|" + strings.Join(ks, "+")
		prs = append(prs, pr{br, off, gk})
		if cur, ok := minOff[gk]; !ok || off < cur {
			minOff[gk] = off
		}
	}
	var brs []groundRead
	for _, p := range prs {
		if p.c == minOff[p.b] {
			brs = append(brs, p.r)
		}
	}
	cands := map[string]*Term{}
	rank := map[string]int{} // 0: read of the same row; 1: read of another row of the same heap
	var order []string
	kk := k.String()
	byLin := map[string]string{}
	for _, br := range brs {
		bb := baseArray(br.arr).String()
		ex := exactRow(br.arr)
		le := newLin()
		linearize(br.idx, big.NewInt(1), le)
		kc, ok := le.coef[kk]
		if !ok || !kc.IsInt64() || (kc.Int64() != 1 && kc.Int64() != -1) {
			continue
		}
		neg := kc.Int64() == -1
		delete(le.coef, kk)
		delete(le.atoms, kk)
		for i := range c.reads {
			gr := &c.reads[i]
			if gr.base != bb {
				continue
			}
			if gr.lin == nil {
				gr.lin = newLin()
				linearize(gr.idx, big.NewInt(1), gr.lin)
				gr.row = exactRow(gr.arr)
			}
			rl := solveIndexLin(le, neg, gr.lin)
			lk := rl.key()
			var t *Term
			key, seen := byLin[lk]
			if !seen {
				t = rl.term()
				key = t.String()
				byLin[lk] = key
			}
			rk := 1
			if gr.row == ex {
				rk = 0
			}
			if old, ok := cands[key]; !ok {
				cands[key] = t
				rank[key] = rk
				order = append(order, key)
			} else if _ = old; rk < rank[key] {
				rank[key] = rk
			}
		}
	}
	sort.Slice(order, func(i, j int) bool {
		if rank[order[i]] != rank[order[j]] {
			return rank[order[i]] < rank[order[j]]
		}
		if len(order[i]) != len(order[j]) {
			return len(order[i]) < len(order[j])
		}
		return order[i] < order[j]
	})
	cc := c.candCap
	if cc == 0 {
		cc = 40
	}
	if len(order) > cc {
		order = order[:cc]
	}
	var out []*Term
	for _, key := range order {
		out = append(out, cands[key])
	}
	return out
}

// qf rewrites t; pol is the polarity of t inside Γ: +1, -1 or 0 (both).
func (c *qfCtx) qf(t *Term, pol int, depth int) *Term {
	switch t.Op {
	case "var", "int", "bool":
		return t
	case "forall", "exists":
		if len(t.Bound) != 1 || depth > 4 {
			// keep (the query is then not quantifier-free; the solver copes or answers unknown)
			return t
		}
		k := t.Bound[0]
		body := t.Args[0]
		universalHyp := (t.Op == "forall" && pol > 0) || (t.Op == "exists" && pol < 0)
		if !universalHyp {
			sk := c.skolem(t)
			return c.qf(subst(body, map[string]*Term{k.Name: sk}), pol, depth+1)
		}
		// a universal hypothesis contributes its instances only (its own Skolem
		// instance would be sound but is noise that feeds further instantiation)
		var parts []*Term
		for _, cand := range c.candidates(t) {
			if c.insts >= c.cap {
				break
			}
			c.insts++
			parts = append(parts, c.qf(subst(body, map[string]*Term{k.Name: cand}), pol, depth+1))
		}
		if t.Op == "forall" {
			return And(parts...)
		}
		if len(parts) == 0 {
			return tFalse
		}
		return Or(parts...)
	case "app":
		args := make([]*Term, len(t.Args))
		switch t.Name {
		case "not":
			args[0] = c.qf(t.Args[0], -pol, depth)
		case "=>":
			args[0] = c.qf(t.Args[0], -pol, depth)
			args[1] = c.qf(t.Args[1], pol, depth)
		case "and", "or":
			for i, a := range t.Args {
				args[i] = c.qf(a, pol, depth)
			}
		case "ite":
			args[0] = c.qf(t.Args[0], 0, depth)
			p := pol
			if t.Sort != SBool {
				p = 0
			}
			args[1] = c.qf(t.Args[1], p, depth)
			args[2] = c.qf(t.Args[2], p, depth)
		case "=":
			if pol != 0 && len(t.Args) == 2 && t.Args[0].Sort == SBool && (hasQuantifier(t.Args[0]) || hasQuantifier(t.Args[1])) {
				// an equivalence with a quantified side: as two implications, so that the universal direction is
				// instantiated (as a whole it could only be skolemized)
				a, b := t.Args[0], t.Args[1]
				return c.qf(And(Implies(a, b), Implies(b, a)), pol, depth)
			}
			for i, a := range t.Args {
				args[i] = c.qf(a, 0, depth)
			}
		default:
			for i, a := range t.Args {
				args[i] = c.qf(a, 0, depth)
			}
		}
		same := true
		for i := range args {
			if args[i] != t.Args[i] {
				same = false
			}
		}
		if same {
			return t
		}
		return &Term{Op: "app", Name: t.Name, Sort: t.Sort, Args: args}
	}
	return t
}

func hasQuantifier(t *Term) bool {
	if t.Op == "forall" || t.Op == "exists" {
		return true
	}
	for _, a := range t.Args {
		if hasQuantifier(a) {
			return true
		}
	}
	return false
}

// qfWeaken returns a quantifier-free weakening of (assumes, goal).
var qfForward = false // instantiation order of the quantifier-free weakening (set per attempt by dischargeVC)

func qfWeaken(assumes []*Term, goal *Term, rounds int) ([]*Term, *Term) {
	return qfWeakenOrder(assumes, goal, rounds, false)
}

func qfWeakenOrder(assumes []*Term, goal *Term, rounds int, forward bool) ([]*Term, *Term) {
	any := goal != nil && hasQuantifier(goal)
	for _, a := range assumes {
		if any {
			break
		}
		any = hasQuantifier(a)
	}
	if !any {
		return assumes, goal
	}
	sk := map[string]*Term{}
	out := assumes
	g := goal
	prev := -1
	if rounds == 0 {
		// the cheapest weakening: no instances at all (universal assumptions become true, the goal is skolemized)
		c := &qfCtx{sk: sk, cap: 6000, candCap: 1}
		next := make([]*Term, len(assumes))
		if goal != nil {
			g = c.qf(goal, -1, 0)
		}
		for i := range assumes {
			next[i] = c.qf(assumes[i], +1, 0)
		}
		return next, g
	}
	for round := 0; round < rounds; round++ {
		c := &qfCtx{sk: sk, cap: 6000}
		c.nsk = len(sk)
		seen := map[string]bool{}
		for _, a := range out {
			collectGroundReads(a, nil, &c.reads, seen)
		}
		if g != nil {
			collectGroundReads(g, nil, &c.reads, seen)
		}
		if len(c.reads) == prev {
			break
		}
		prev = len(c.reads)
		for i := range c.reads {
			c.reads[i].base = baseArray(c.reads[i].arr).String()
		}
		next := make([]*Term, len(assumes))
		// the goal first, then the assumptions latest first: when the instance budget runs out,
		// the facts established closest to the assertion have been served
		if forward {
			c.candCap = 64
			for i, a := range assumes {
				next[i] = c.qf(a, +1, 0)
			}
			if goal != nil {
				g = c.qf(goal, -1, 0)
			}
		} else {
			c.candCap = 40
			if goal != nil {
				g = c.qf(goal, -1, 0)
			}
			for i := len(assumes) - 1; i >= 0; i-- {
				next[i] = c.qf(assumes[i], +1, 0)
			}
		}
		out = next
	}
	return out, g
}
