package main

import (
	"fmt"
	"go/types"
	"sort"
)

func (x *Exec) lemmaAvailable(lm *Lemma) bool {
	if x.currentLemma == "" {
		return true
	}
	cur := x.prog.contracts.Lemmas[x.currentLemma]
	if cur == nil {
		return true
	}
	// only lemmas stated earlier in the same file (or in an earlier file) may be used: no cycles
	if lm.File != cur.File {
		return lm.File < cur.File
	}
	return lm.Line < cur.Line
}

// verifyLemmas proves every lemma by the induction scheme it declares.
func (p *Program) verifyLemmas(opts verifyOpts) []*OblResult {
	var out []*OblResult
	names := sortedLemmaNames(p.contracts)
	sort.Slice(names, func(i, j int) bool {
		a, b := p.contracts.Lemmas[names[i]], p.contracts.Lemmas[names[j]]
		if a.File != b.File {
			return a.File < b.File
		}
		return a.Line < b.Line
	})
	for _, n := range names {
		out = append(out, p.verifyLemma(p.contracts.Lemmas[n], opts)...)
	}
	return out
}

func (p *Program) verifyLemma(lm *Lemma, opts verifyOpts) (out []*OblResult) {
	x := &Exec{prog: p, name: "lemma." + lm.Name}
	x.currentLemma = lm.Name
	defer func() {
		if r := recover(); r != nil {
			msg := fmt.Sprint(r)
			if e, ok := r.(cevalErr); ok {
				msg = e.msg
			}
			if e, ok := r.(unsupported); ok {
				msg = e.msg
			}
			out = []*OblResult{{Name: x.name + "/error", Func: x.name, Status: "undecided", Desc: msg, Serves: lm.Serves}}
		}
	}()
	qn := new(int)
	*qn = 500000
	env := &CEnv{x: x, vars: map[string]SV{}, qn: qn}
	var args []SV
	for _, pd := range lm.Params {
		var v SV
		switch {
		case isSeqType(pd.Type):
			v = SV{K: KSeq, Arr: Var("L."+pd.Name+"#arr", SArrI), Off: Var("L."+pd.Name+"#off", SInt), Len: Var("L."+pd.Name+"#len", SInt)}
			v.Cap = v.Len
		case pd.Type == "bool":
			v = boolSV(Var("L."+pd.Name, SBool))
		default:
			v = intSV(Var("L."+pd.Name, SInt), types.Typ[types.Int])
		}
		env.vars[pd.Name] = v
		args = append(args, v)
	}
	var assumes []*Term
	for _, r := range lm.Requires {
		assumes = append(assumes, env.evalBool(r.Expr))
	}
	if lm.IndVar != "" {
		idx := -1
		for i, pd := range lm.Params {
			if pd.Name == lm.IndVar {
				idx = i
			}
		}
		if idx < 0 {
			panic(cevalErr{"induction variable is not a parameter"})
		}
		v := args[idx].T
		bound := env.evalInt(lm.IndBound)
		ihArgs := append([]SV(nil), args...)
		var guard *Term
		if lm.IndDir == "from" {
			ihArgs[idx] = intSV(Sub(v, IntC(1)), types.Typ[types.Int])
			guard = Gt(v, bound)
		} else {
			ihArgs[idx] = intSV(Add(v, IntC(1)), types.Typ[types.Int])
			guard = Lt(v, bound)
		}
		assumes = append(assumes, Implies(guard, x.lemmaInstance(lm, ihArgs, qn)))
	}
	if len(lm.IHs) > 0 {
		if lm.Measure == nil {
			panic(cevalErr{"ih clauses need a decreases clause"})
		}
		m := env.evalInt(lm.Measure)
		for _, ih := range lm.IHs {
			if len(ih.Args) != len(lm.Params) {
				panic(cevalErr{"ih: wrong number of arguments"})
			}
			ihArgs := make([]SV, len(ih.Args))
			menv := &CEnv{x: x, vars: map[string]SV{}, qn: qn}
			for i, a := range ih.Args {
				ihArgs[i] = env.eval(a)
				if isSeqType(lm.Params[i].Type) {
					ihArgs[i] = env.resolveSeq(ihArgs[i])
				}
				menv.vars[lm.Params[i].Name] = ihArgs[i]
			}
			m2 := menv.evalInt(lm.Measure)
			// well-founded: the hypothesis is available only at a strictly smaller, non-negative measure
			assumes = append(assumes, Implies(And(Le(IntC(0), m2), Lt(m2, m)), x.lemmaInstance(lm, ihArgs, qn)))
		}
	}
	for _, u := range lm.Uses {
		assumes = append(assumes, env.evalBool(u))
	}
	for _, e := range lm.Ensures {
		goal := env.evalBool(e.Expr)
		o := &Obligation{Name: x.name + "/" + e.Label, Assumes: assumes, Goal: goal, Desc: e.Text}
		r, dis := dischargeVC(x, o, opts)
		or := &OblResult{Name: o.Name, Func: x.name, VCs: 1, Desc: e.Text, Pos: fmt.Sprintf("%s:%d", lm.File, e.Line), Solver: r.Solver, Time: r.Time, Serves: lm.Serves, Disagree: dis}
		switch r.Status {
		case "unsat":
			or.Status = "discharged"
		case "sat":
			or.Status = "failed"
			or.Failing = o
			or.FailRes = r
		default:
			or.Status = "undecided"
			or.Failing = o
			or.FailRes = r
		}
		out = append(out, or)
		assumes = append(assumes, goal)
	}
	return out
}
