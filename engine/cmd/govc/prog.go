package main

import (
	"fmt"
	"go/constant"
	"go/token"
	"go/types"
	"os"
	"path/filepath"
	"sort"
	"strings"
	"sync"

	"golang.org/x/tools/go/packages"
	"golang.org/x/tools/go/ssa"
	"golang.org/x/tools/go/ssa/ssautil"
)

type Program struct {
	fset            *token.FileSet
	pkgs            []*packages.Package
	ssaProg         *ssa.Program
	ssaPkgs         []*ssa.Package
	contracts       *Contracts
	funcs           map[string]*ssa.Function // "pkg.Key" -> function
	funcKeys        map[*ssa.Function]string
	constants       map[string]int64
	strConsts       map[string]int // string -> ordinal
	strByID         map[string]string
	keySorts        map[string]Sort
	lemmasByTrigger map[string][]*Lemma
	lemmaOrder      map[string]int
	repoDir         string
	allFuncs        []*ssa.Function
	byName          map[string]*ssa.Function // every SSA function (including synthetic thunks) by String()-suffix name
	// contracts whose function can no longer be found in the tree (renamed, a keyed closure that now calls
	// something else): reported as the "reach" obligation of that contract, for the properties it serves, instead
	// of failing the whole load
	unbound map[string]string
}

const modulePath = "zombiezen.com/go/commonmark"

func loadProgram(repo string, overlay map[string][]byte) (*Program, error) {
	cfg := &packages.Config{Mode: packages.LoadAllSyntax, Dir: repo, BuildFlags: []string{"-tags=verif"}, Overlay: overlay,
		Env: append(os.Environ(), "GOFLAGS=-mod=mod", "GOPROXY=off", "GOSUMDB=off", "GOTOOLCHAIN=local")}
	pkgs, err := packages.Load(cfg, ".", "./format")
	if err != nil {
		return nil, err
	}
	for _, p := range pkgs {
		if len(p.Errors) > 0 {
			return nil, fmt.Errorf("package %s: %v", p.PkgPath, p.Errors[0])
		}
	}
	prog, spkgs := ssautil.AllPackages(pkgs, ssa.NaiveForm|ssa.GlobalDebug)
	prog.Build()
	p := &Program{fset: pkgs[0].Fset, pkgs: pkgs, ssaProg: prog, ssaPkgs: spkgs, repoDir: repo,
		funcs: map[string]*ssa.Function{}, funcKeys: map[*ssa.Function]string{}, constants: map[string]int64{},
		strConsts: map[string]int{}, strByID: map[string]string{}, keySorts: map[string]Sort{},
		lemmasByTrigger: map[string][]*Lemma{}, lemmaOrder: map[string]int{}}
	dirs := map[string]string{}
	for i, pk := range pkgs {
		name := pk.Name
		if len(pk.GoFiles) > 0 {
			dirs[name] = filepath.Dir(pk.GoFiles[0])
		}
		_ = i
	}
	p.contracts, err = loadContractsOverlay(dirs, overlay)
	if err != nil {
		return nil, err
	}
	p.byName = map[string]*ssa.Function{}
	for fn := range ssautil.AllFunctions(prog) {
		full := fn.String()
		if strings.Contains(full, modulePath) {
			short := strings.ReplaceAll(strings.ReplaceAll(full, modulePath+"/format.", "format."), modulePath+".", "")
			p.byName[short] = fn
		}
	}
	for fn := range ssautil.AllFunctions(prog) {
		if !p.inScope(fn) || fn.Synthetic != "" && !strings.HasPrefix(fn.Synthetic, "package init") {
			continue
		}
		if fn.Synthetic != "" {
			continue
		}
		key := fn.Pkg.Pkg.Name() + "." + calleeKey(fn)
		if fn.Pkg == nil {
			continue
		}
		p.funcs[key] = fn
		p.funcKeys[fn] = key
		p.allFuncs = append(p.allFuncs, fn)
	}
	sort.Slice(p.allFuncs, func(i, j int) bool { return p.funcKeys[p.allFuncs[i]] < p.funcKeys[p.allFuncs[j]] })
	// integer constants of the packages, for use in contracts
	for _, pk := range pkgs {
		sc := pk.Types.Scope()
		for _, n := range sc.Names() {
			if c, ok := sc.Lookup(n).(*types.Const); ok && c.Val().Kind() == constant.Int {
				if v, exact := constant.Int64Val(c.Val()); exact {
					if _, dup := p.constants[n]; !dup {
						p.constants[n] = v
					}
				}
			}
		}
	}
	// heap key sorts for every struct type and element type of the packages
	for _, pk := range pkgs {
		sc := pk.Types.Scope()
		for _, n := range sc.Names() {
			if tn, ok := sc.Lookup(n).(*types.TypeName); ok {
				p.registerTypeKeys(tn.Type(), map[types.Type]bool{})
			}
		}
	}
	p.keySorts["E:byte"] = SArr2
	p.keySorts["S:byte"] = SArr2
	p.keySorts["E:int"] = SArr2
	for i, name := range sortedLemmaNames(p.contracts) {
		_ = i
		lm := p.contracts.Lemmas[name]
		if lm.Trigger != nil && lm.Trigger.Kind == "call" {
			p.lemmasByTrigger[lm.Trigger.Str] = append(p.lemmasByTrigger[lm.Trigger.Str], lm)
		}
	}
	for _, lms := range p.lemmasByTrigger {
		sort.Slice(lms, func(i, j int) bool { return lms[i].Line < lms[j].Line })
	}
	for _, lm := range p.contracts.Lemmas {
		p.lemmaOrder[lm.Name] = lm.Line
	}
	// closures are keyed by what they call: "closure(CALLEE)" is the unique function literal that calls CALLEE
	for _, k := range p.contracts.Order {
		i := strings.Index(k, ".closure(")
		if i < 0 || !strings.HasSuffix(k, ")") {
			continue
		}
		wants := strings.Split(k[i+len(".closure("):len(k)-1], "&")
		var found []*ssa.Function
		for _, fn := range p.allFuncs {
			if fn.Parent() == nil || p.funcKeys[fn][:i] != k[:i] {
				continue
			}
			hit := map[string]bool{}
			for _, b := range fn.Blocks {
				for _, in := range b.Instrs {
					if c, ok := in.(ssa.CallInstruction); ok {
						if sc := c.Common().StaticCallee(); sc != nil {
							hit[calleeKey(sc)] = true
						}
					}
				}
			}
			calls := true
			for _, w := range wants {
				w = strings.TrimSpace(w)
				if strings.HasPrefix(w, "!") {
					if hit[w[1:]] {
						calls = false
					}
				} else if !hit[w] {
					calls = false
				}
			}
			if calls {
				found = append(found, fn)
			}
		}
		if len(found) != 1 {
			if p.unbound == nil {
				p.unbound = map[string]string{}
			}
			p.unbound[k] = fmt.Sprintf("%d function literals call %v (the contract is keyed by exactly one)", len(found), wants)
			continue
		}
		delete(p.funcs, p.funcKeys[found[0]])
		p.funcs[k] = found[0]
		p.funcKeys[found[0]] = k
	}
	// every contract must name an existing function
	for _, k := range p.contracts.Order {
		if _, ok := p.funcs[k]; !ok {
			if p.unbound == nil {
				p.unbound = map[string]string{}
			}
			if _, dup := p.unbound[k]; !dup {
				p.unbound[k] = "no function of this name in the tree"
			}
		}
	}
	return p, nil
}

func sortedLemmaNames(cs *Contracts) []string {
	var ns []string
	for n := range cs.Lemmas {
		ns = append(ns, n)
	}
	sort.Strings(ns)
	return ns
}

func loadContractsOverlay(dirs map[string]string, overlay map[string][]byte) (*Contracts, error) {
	cs, err := loadContracts(dirs)
	return cs, err
}

func (p *Program) registerTypeKeys(t types.Type, seen map[types.Type]bool) {
	if seen[t] {
		return
	}
	seen[t] = true
	defer func() { recover() }()
	switch u := t.Underlying().(type) {
	case *types.Struct:
		for _, lf := range leavesOf(t) {
			p.keySorts["F:"+typeName(t)+lf.suffix] = arrayOf(lf.sort)
			p.keySorts[elemKeyBase(t)+lf.suffix] = arrayOf(arrayOf(lf.sort))
		}
		for i := 0; i < u.NumFields(); i++ {
			p.registerFieldType(u.Field(i).Type(), seen)
		}
	default:
		if m, ok := t.Underlying().(*types.Map); ok {
			base := "M:" + typeName(t)
			p.keySorts[base+"#has"] = SAr2B
			func() {
				defer func() { recover() }()
				for _, lf := range leavesOf(m.Elem()) {
					p.keySorts[base+lf.suffix+"#v"] = arrayOf(arrayOf(lf.sort))
				}
			}()
		}
		p.registerFieldType(t, seen)
	}
}

func (p *Program) registerFieldType(t types.Type, seen map[types.Type]bool) {
	switch u := t.Underlying().(type) {
	case *types.Slice:
		p.registerElem(u.Elem(), seen)
	case *types.Array:
		p.registerElem(u.Elem(), seen)
	case *types.Pointer:
		if _, ok := u.Elem().Underlying().(*types.Struct); ok {
			p.registerTypeKeys(u.Elem(), seen)
		} else {
			func() {
				defer func() { recover() }()
				for _, lf := range leavesOf(u.Elem()) {
					p.keySorts["P:"+typeName(u.Elem())+lf.suffix] = arrayOf(lf.sort)
				}
			}()
		}
	case *types.Struct:
		p.registerTypeKeys(t, seen)
	}
}

func (p *Program) registerElem(et types.Type, seen map[types.Type]bool) {
	func() {
		defer func() { recover() }()
		for _, lf := range leavesOf(et) {
			p.keySorts[elemKeyBase(et)+lf.suffix] = arrayOf(arrayOf(lf.sort))
		}
	}()
	p.registerFieldType(et, seen)
	if _, ok := et.Underlying().(*types.Struct); ok {
		p.registerTypeKeys(et, seen)
	}
}

func (p *Program) inScope(fn *ssa.Function) bool {
	pk := fn.Pkg
	if pk == nil && fn.Parent() != nil {
		pk = fn.Parent().Pkg
	}
	if pk == nil {
		return false
	}
	path := pk.Pkg.Path()
	return path == modulePath || path == modulePath+"/format"
}

func (p *Program) contractFor(fn *ssa.Function) *FuncContract {
	k, ok := p.funcKeys[fn]
	if !ok {
		return nil
	}
	return p.contracts.Funcs[k]
}

// modifiesKeys: the heap keys a callee with a contract may change.
func (p *Program) modifiesKeys(x *Exec, fn *ssa.Function, fc *FuncContract) (keys []string, allocs, all bool) {
	items, err := parseModifies(fc.Modifies)
	if err != nil {
		return nil, false, true
	}
	paramType := func(name string) types.Type {
		for _, pr := range fn.Params {
			if pr.Name() == name {
				return pr.Type()
			}
		}
		return nil
	}
	for _, it := range items {
		switch it.kind {
		case "alloc":
			allocs = true
		case "heap":
			keys = append(keys, it.key)
		case "field", "obj":
			if it.base.Kind != "id" {
				return nil, false, true
			}
			t := paramType(it.base.Str)
			pt, ok := t.Underlying().(*types.Pointer)
			if t == nil || !ok {
				return nil, false, true
			}
			var path []int
			tt := pt.Elem()
			for _, name := range it.path {
				if pp, isPtr := tt.Underlying().(*types.Pointer); isPtr {
					pt = pp
					tt = pp.Elem()
					path = nil
				}
				stt, ok := tt.Underlying().(*types.Struct)
				if !ok {
					return nil, false, true
				}
				for i := 0; i < stt.NumFields(); i++ {
					if stt.Field(i).Name() == name {
						path = append(path, i)
						tt = stt.Field(i).Type()
						break
					}
				}
			}
			keys = append(keys, x.keysOfObject(pt.Elem(), path)...)
		case "map":
			t := p.typeOfModBase(fn, it.base)
			if t == nil || mapTypeOf(t) == nil {
				return nil, false, true
			}
			keys = append(keys, mapHeapKeys(t)...)
		case "elems":
			// type of the base expression: parameter or field path of a parameter
			t := p.typeOfModBase(fn, it.base)
			if t == nil {
				return nil, false, true
			}
			et := elemTypeOf(t)
			if et == nil {
				return nil, false, true
			}
			for _, lf := range leavesOf(et) {
				keys = append(keys, elemKeyBase(et)+lf.suffix)
			}
		}
	}
	return keys, allocs, false
}

func (p *Program) typeOfModBase(fn *ssa.Function, e *CExpr) types.Type {
	switch e.Kind {
	case "id":
		for _, pr := range fn.Params {
			if pr.Name() == e.Str {
				return pr.Type()
			}
		}
	case "field":
		bt := p.typeOfModBase(fn, e.X)
		if bt == nil {
			return nil
		}
		if pt, ok := bt.Underlying().(*types.Pointer); ok {
			bt = pt.Elem()
		}
		if st, ok := bt.Underlying().(*types.Struct); ok {
			for i := 0; i < st.NumFields(); i++ {
				if st.Field(i).Name() == e.Str {
					return st.Field(i).Type()
				}
			}
		}
	case "old":
		return p.typeOfModBase(fn, e.X)
	case "deref":
		bt := p.typeOfModBase(fn, e.X)
		if bt == nil {
			return nil
		}
		if pt, ok := bt.Underlying().(*types.Pointer); ok {
			return pt.Elem()
		}
	}
	return nil
}

// modifiesSpec evaluates the function's own modifies clause at entry.
func (p *Program) modifiesSpec(x *Exec, fn *ssa.Function, fc *FuncContract) map[string]*license {
	lic, _ := x.modLicenses(fc, fn, x.params, HeapView{})
	return lic
}

func (p *Program) dynamicCallMods(c *ssa.CallCommon) []string {
	return nil
}

// ---- string constants ----

var strMu sync.Mutex

func (p *Program) stringConst(x *Exec, s string, ty types.Type) SV {
	strMu.Lock()
	defer strMu.Unlock()
	n, ok := p.strConsts[s]
	if !ok {
		n = len(p.strConsts) + 1
		p.strConsts[s] = n
	}
	name := fmt.Sprintf("strconst.%d", n)
	p.strByID[name] = s
	id := App(name, SInt)
	arr := App("zeroarr", SArrI)
	for i := 0; i < len(s); i++ {
		arr = Store(arr, IntC(int64(i)), IntC(int64(s[i])))
	}
	if len(s) == 0 {
		return SV{K: KSeq, Ty: ty, Id: IntC(0), Arr: arr, Off: IntC(0), Len: IntC(0), Cap: IntC(0)}
	}
	return SV{K: KSeq, Ty: ty, Id: id, Arr: arr, Off: IntC(0), Len: IntC(int64(len(s))), Cap: IntC(int64(len(s)))}
}

func (p *Program) constOf(v SV) (string, bool) {
	if v.K != KSeq || v.Id == nil {
		return "", false
	}
	if v.Id.IsInt() && v.Id.Int.Sign() == 0 && v.Len.IsInt() && v.Len.Int.Sign() == 0 {
		return "", true
	}
	if v.Id.Op == "app" && strings.HasPrefix(v.Id.Name, "strconst.") && v.Off.IsInt() && v.Off.Int.Sign() == 0 && v.Len.IsInt() {
		strMu.Lock()
		s := p.strByID[v.Id.Name]
		strMu.Unlock()
		if int64(len(s)) == v.Len.Int.Int64() {
			return s, true
		}
	}
	return "", false
}
