package main

// Maps.  A map value is a reference; its contents live in heaps indexed by
// (map reference, abstract key): one heap per leaf of the value type, plus a
// presence heap.  The abstract key of a string is its contents (seqval, with
// extensionality instances per VC); of a pointer or integer, the value itself.
// Iteration over maps is outside the subset.

import (
	"fmt"
	"go/types"

	"golang.org/x/tools/go/ssa"
)

func mapTypeOf(t types.Type) *types.Map {
	m, _ := t.Underlying().(*types.Map)
	return m
}

func mapHeapKeys(t types.Type) []string {
	m := mapTypeOf(t)
	if m == nil {
		return nil
	}
	base := "M:" + typeName(t)
	keys := []string{base + "#has"}
	for _, lf := range leavesOf(m.Elem()) {
		keys = append(keys, base+lf.suffix+"#v")
	}
	return keys
}

func (x *Exec) registerMapKeys(t types.Type) {
	m := mapTypeOf(t)
	base := "M:" + typeName(t)
	x.registerKey(base+"#has", SAr2B)
	keyMu.Lock()
	x.prog.keySorts[base+"#has"] = SAr2B
	for _, lf := range leavesOf(m.Elem()) {
		x.prog.keySorts[base+lf.suffix+"#v"] = arrayOf(arrayOf(lf.sort))
	}
	keyMu.Unlock()
	for _, lf := range leavesOf(m.Elem()) {
		x.registerKey(base+lf.suffix+"#v", arrayOf(arrayOf(lf.sort)))
	}
}

// mapKeyTerm: the abstract key.
func (x *Exec) mapKeyTerm(h HeapView, k SV, kt types.Type) *Term {
	switch k.K {
	case KInt, KRef:
		if k.T == nil {
			x.fail("map key is an interior pointer")
		}
		return k.T
	case KSeq:
		if isStringType(kt) {
			return x.seqVal(h, k)
		}
	}
	x.fail("map key of type %s", kt)
	return nil
}

func (x *Exec) mapRead(h HeapView, mt types.Type, mref, key *Term) (val SV, has *Term) {
	m := mapTypeOf(mt)
	x.registerMapKeys(mt)
	base := "M:" + typeName(mt)
	has = Select(Select(x.heapGet(h, base+"#has", SAr2B), mref), key)
	var ts []*Term
	for _, lf := range leavesOf(m.Elem()) {
		srt := arrayOf(arrayOf(lf.sort))
		raw := Select(Select(x.heapGet(h, base+lf.suffix+"#v", srt), mref), key)
		var zero *Term
		if lf.sort == SBool {
			zero = tFalse
		} else {
			zero = IntC(0)
		}
		// a key that is not present reads as the zero value; so does any key of the nil map
		ts = append(ts, Ite(And(has, Ne(mref, IntC(0))), raw, zero))
	}
	val, _ = x.fromLeaves(m.Elem(), ts)
	has = And(has, Ne(mref, IntC(0)))
	return val, has
}

func (x *Exec) mapLookup(st *State, i *ssa.Lookup) SV {
	mt := i.X.Type()
	m := mapTypeOf(mt)
	if m == nil {
		x.fail("lookup on %s", mt)
	}
	mv := x.value(st, i.X)
	kv := x.value(st, i.Index)
	key := x.mapKeyTerm(st.heap, kv, m.Key())
	val, has := x.mapRead(st.heap, mt, mv.T, key)
	x.assumeTypeInv(st, val)
	if i.CommaOk {
		return SV{K: KTuple, Ty: i.Type(), Fields: []SV{val, boolSV(has)}}
	}
	return val
}

func (x *Exec) mapUpdate(st *State, i *ssa.MapUpdate) {
	mt := i.Map.Type()
	m := mapTypeOf(mt)
	mv := x.value(st, i.Map)
	kv := x.value(st, i.Key)
	vv := x.value(st, i.Value)
	x.safe(st, "nil", Ne(mv.T, IntC(0)), "assignment to entry in nil map", i.Pos())
	if x.fc != nil && len(x.fc.MapSites) > 0 && len(st.frames) == 1 {
		env := x.contractEnv(st, nil, st.entry)
		x.bindLocals(env, st.top(), nil)
		env.vars["$map"] = mv
		env.vars["$key"] = kv
		env.vars["$value"] = vv
		n := 0
		for _, b := range i.Parent().Blocks {
			for _, in := range b.Instrs {
				if u, ok := in.(*ssa.MapUpdate); ok && u != i && u.Pos() < i.Pos() {
					n++
				}
			}
		}
		for _, cl := range x.fc.MapSites {
			x.assertClause(st, fmt.Sprintf("site:mapupdate#%d:%s", n, cl.Label), env, cl.Expr, cl.Text, i.Pos())
		}
	}
	key := x.mapKeyTerm(st.heap, kv, m.Key())
	x.registerMapKeys(mt)
	base := "M:" + typeName(mt)
	hk := base + "#has"
	h := x.heapGet(st.heap, hk, SAr2B)
	st.heap[hk] = Store(h, mv.T, Store(Select(h, mv.T), key, tTrue))
	ts := x.leafTerms(vv)
	for n, lf := range leavesOf(m.Elem()) {
		k := base + lf.suffix + "#v"
		srt := arrayOf(arrayOf(lf.sort))
		hv := x.heapGet(st.heap, k, srt)
		st.heap[k] = Store(hv, mv.T, Store(Select(hv, mv.T), key, ts[n]))
	}
}

func (x *Exec) mapDelete(st *State, c *ssa.Call) {
	mt := c.Call.Args[0].Type()
	m := mapTypeOf(mt)
	mv := x.value(st, c.Call.Args[0])
	kv := x.value(st, c.Call.Args[1])
	key := x.mapKeyTerm(st.heap, kv, m.Key())
	x.registerMapKeys(mt)
	hk := "M:" + typeName(mt) + "#has"
	h := x.heapGet(st.heap, hk, SAr2B)
	// delete on a nil map is a no-op; row 0 is never read as present
	st.heap[hk] = Store(h, mv.T, Store(Select(h, mv.T), key, tFalse))
}

// initMap: a fresh map has no keys.
func (x *Exec) initMap(st *State, r *Term, t types.Type) {
	x.registerMapKeys(t)
	hk := "M:" + typeName(t) + "#has"
	h := x.heapGet(st.heap, hk, SAr2B)
	st.heap[hk] = Store(h, r, App("falsearr", SArrB))
}
