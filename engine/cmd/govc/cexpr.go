package main

// Contract expression language: lexer, Pratt parser, AST.

import (
	"fmt"
	"strconv"
	"strings"
)

type CExpr struct {
	Kind string // int bool str id field index slice call unop binop cond old forall exists
	Pos  int
	Int  int64
	Bool bool
	Str  string // id name, field name, operator, string literal, call name
	X    *CExpr // operand / receiver / condition
	Y    *CExpr // second operand / index / then
	Z    *CExpr // else / slice high
	Args []*CExpr
	// quantifier
	Var    string
	Lo, Hi *CExpr // nil for unbounded
	Body   *CExpr
	VarTy  string
}

func (e *CExpr) String() string {
	switch e.Kind {
	case "int":
		return strconv.FormatInt(e.Int, 10)
	case "bool":
		return strconv.FormatBool(e.Bool)
	case "str":
		return strconv.Quote(e.Str)
	case "id":
		return e.Str
	case "field":
		return e.X.String() + "." + e.Str
	case "index":
		return e.X.String() + "[" + e.Y.String() + "]"
	case "slice":
		lo, hi := "", ""
		if e.Y != nil {
			lo = e.Y.String()
		}
		if e.Z != nil {
			hi = e.Z.String()
		}
		return e.X.String() + "[" + lo + ":" + hi + "]"
	case "call":
		var as []string
		for _, a := range e.Args {
			as = append(as, a.String())
		}
		return e.Str + "(" + strings.Join(as, ", ") + ")"
	case "unop":
		return e.Str + e.X.String()
	case "deref":
		return "*" + e.X.String()
	case "binop":
		return "(" + e.X.String() + " " + e.Str + " " + e.Y.String() + ")"
	case "cond":
		return "(" + e.X.String() + " ? " + e.Y.String() + " : " + e.Z.String() + ")"
	case "old":
		return "old(" + e.X.String() + ")"
	case "forall", "exists":
		if e.Lo != nil {
			return fmt.Sprintf("(%s %s in [%s,%s): %s)", e.Kind, e.Var, e.Lo, e.Hi, e.Body)
		}
		return fmt.Sprintf("(%s %s %s: %s)", e.Kind, e.Var, e.VarTy, e.Body)
	}
	return "?" + e.Kind
}

type ctoken struct {
	kind string // int, char, str, id, op, eof
	text string
	ival int64
	pos  int
}

type lexer struct {
	src  string
	pos  int
	toks []ctoken
}

func lex(src string) ([]ctoken, error) {
	var toks []ctoken
	i := 0
	for i < len(src) {
		c := src[i]
		switch {
		case c == ' ' || c == '\t' || c == '\n' || c == '\r':
			i++
		case c >= '0' && c <= '9':
			j := i
			for j < len(src) && (src[j] >= '0' && src[j] <= '9' || src[j] >= 'a' && src[j] <= 'f' || src[j] >= 'A' && src[j] <= 'F' || src[j] == 'x' || src[j] == 'X' || src[j] == '_') {
				j++
			}
			v, err := strconv.ParseInt(strings.ReplaceAll(src[i:j], "_", ""), 0, 64)
			if err != nil {
				return nil, fmt.Errorf("bad number %q", src[i:j])
			}
			toks = append(toks, ctoken{kind: "int", ival: v, pos: i, text: src[i:j]})
			i = j
		case c == '\'':
			j := i + 1
			for j < len(src) && src[j] != '\'' {
				if src[j] == '\\' {
					j++
				}
				j++
			}
			if j >= len(src) {
				return nil, fmt.Errorf("unterminated char literal")
			}
			s, err := strconv.Unquote(src[i : j+1])
			if err != nil {
				// allow '\'' and bytes
				return nil, fmt.Errorf("bad char literal %s: %v", src[i:j+1], err)
			}
			r := []rune(s)
			var v int64
			if len(r) == 1 {
				v = int64(r[0])
			}
			if len(s) == 1 {
				v = int64(s[0])
			}
			toks = append(toks, ctoken{kind: "int", ival: v, pos: i, text: src[i : j+1]})
			i = j + 1
		case c == '"':
			j := i + 1
			for j < len(src) && src[j] != '"' {
				if src[j] == '\\' {
					j++
				}
				j++
			}
			if j >= len(src) {
				return nil, fmt.Errorf("unterminated string literal")
			}
			s, err := strconv.Unquote(src[i : j+1])
			if err != nil {
				return nil, fmt.Errorf("bad string literal %s: %v", src[i:j+1], err)
			}
			toks = append(toks, ctoken{kind: "str", text: s, pos: i})
			i = j + 1
		case c == '_' || c >= 'a' && c <= 'z' || c >= 'A' && c <= 'Z' || c == '$':
			j := i
			for j < len(src) && (src[j] == '_' || src[j] == '$' || src[j] >= 'a' && src[j] <= 'z' || src[j] >= 'A' && src[j] <= 'Z' || src[j] >= '0' && src[j] <= '9') {
				j++
			}
			toks = append(toks, ctoken{kind: "id", text: src[i:j], pos: i})
			i = j
		default:
			ops := []string{"<==>", "==>", "&&", "||", "==", "!=", "<=", ">=", "<", ">", "+", "-", "*", "/", "%", "!", "(", ")", "[", "]", ",", ":", "?", ".", "{", "}"}
			matched := false
			for _, op := range ops {
				if strings.HasPrefix(src[i:], op) {
					toks = append(toks, ctoken{kind: "op", text: op, pos: i})
					i += len(op)
					matched = true
					break
				}
			}
			if !matched {
				return nil, fmt.Errorf("unexpected character %q at %d in %q", c, i, src)
			}
		}
	}
	toks = append(toks, ctoken{kind: "eof", pos: len(src)})
	return toks, nil
}

type parser struct {
	toks []ctoken
	p    int
	src  string
}

func parseCExpr(src string) (*CExpr, error) {
	toks, err := lex(src)
	if err != nil {
		return nil, err
	}
	ps := &parser{toks: toks, src: src}
	e, err := ps.expr(0)
	if err != nil {
		return nil, err
	}
	if ps.peek().kind != "eof" {
		return nil, fmt.Errorf("unexpected %q at %d in %q", ps.peek().text, ps.peek().pos, src)
	}
	return e, nil
}

func (ps *parser) peek() ctoken { return ps.toks[ps.p] }
func (ps *parser) next() ctoken {
	t := ps.toks[ps.p]
	if ps.p < len(ps.toks)-1 {
		ps.p++
	}
	return t
}
func (ps *parser) isOp(s string) bool { t := ps.peek(); return t.kind == "op" && t.text == s }
func (ps *parser) expect(s string) error {
	if !ps.isOp(s) {
		return fmt.Errorf("expected %q at %d, got %q in %q", s, ps.peek().pos, ps.peek().text, ps.src)
	}
	ps.next()
	return nil
}

// precedence: higher binds tighter
var binPrec = map[string]int{
	"<==>": 1, "==>": 2, "?": 3, "||": 4, "&&": 5,
	"==": 6, "!=": 6, "<": 6, "<=": 6, ">": 6, ">=": 6,
	"+": 7, "-": 7, "*": 8, "/": 8, "%": 8,
}

func (ps *parser) expr(minPrec int) (*CExpr, error) {
	lhs, err := ps.unary()
	if err != nil {
		return nil, err
	}
	for {
		t := ps.peek()
		if t.kind != "op" {
			break
		}
		prec, ok := binPrec[t.text]
		if !ok || prec < minPrec {
			break
		}
		ps.next()
		if t.text == "?" {
			a, err := ps.expr(0)
			if err != nil {
				return nil, err
			}
			if err := ps.expect(":"); err != nil {
				return nil, err
			}
			b, err := ps.expr(prec)
			if err != nil {
				return nil, err
			}
			lhs = &CExpr{Kind: "cond", X: lhs, Y: a, Z: b, Pos: t.pos}
			continue
		}
		nextMin := prec + 1
		if t.text == "==>" { // right associative
			nextMin = prec
		}
		rhs, err := ps.expr(nextMin)
		if err != nil {
			return nil, err
		}
		lhs = &CExpr{Kind: "binop", Str: t.text, X: lhs, Y: rhs, Pos: t.pos}
	}
	return lhs, nil
}

func (ps *parser) unary() (*CExpr, error) {
	t := ps.peek()
	if t.kind == "op" && t.text == "*" {
		ps.next()
		x, err := ps.unary()
		if err != nil {
			return nil, err
		}
		return &CExpr{Kind: "deref", X: x, Pos: t.pos}, nil
	}
	if t.kind == "op" && (t.text == "!" || t.text == "-") {
		ps.next()
		x, err := ps.unary()
		if err != nil {
			return nil, err
		}
		if t.text == "-" && x.Kind == "int" {
			return &CExpr{Kind: "int", Int: -x.Int, Pos: t.pos}, nil
		}
		return &CExpr{Kind: "unop", Str: t.text, X: x, Pos: t.pos}, nil
	}
	return ps.postfix()
}

func (ps *parser) postfix() (*CExpr, error) {
	x, err := ps.primary()
	if err != nil {
		return nil, err
	}
	for {
		switch {
		case ps.isOp("."):
			ps.next()
			t := ps.next()
			if t.kind != "id" {
				return nil, fmt.Errorf("expected field name at %d in %q", t.pos, ps.src)
			}
			x = &CExpr{Kind: "field", X: x, Str: t.text, Pos: t.pos}
		case ps.isOp("["):
			ps.next()
			var lo, hi *CExpr
			if !ps.isOp(":") {
				lo, err = ps.expr(0)
				if err != nil {
					return nil, err
				}
			}
			if ps.isOp(":") {
				ps.next()
				if !ps.isOp("]") {
					hi, err = ps.expr(0)
					if err != nil {
						return nil, err
					}
				}
				if err := ps.expect("]"); err != nil {
					return nil, err
				}
				x = &CExpr{Kind: "slice", X: x, Y: lo, Z: hi}
			} else {
				if err := ps.expect("]"); err != nil {
					return nil, err
				}
				x = &CExpr{Kind: "index", X: x, Y: lo}
			}
		default:
			return x, nil
		}
	}
}

func (ps *parser) primary() (*CExpr, error) {
	t := ps.next()
	switch t.kind {
	case "int":
		return &CExpr{Kind: "int", Int: t.ival, Pos: t.pos}, nil
	case "str":
		return &CExpr{Kind: "str", Str: t.text, Pos: t.pos}, nil
	case "id":
		switch t.text {
		case "true":
			return &CExpr{Kind: "bool", Bool: true}, nil
		case "false":
			return &CExpr{Kind: "bool", Bool: false}, nil
		case "forall", "exists":
			v := ps.next()
			if v.kind != "id" {
				return nil, fmt.Errorf("expected bound variable after %s in %q", t.text, ps.src)
			}
			q := &CExpr{Kind: t.text, Var: v.text, Pos: t.pos}
			if ps.peek().kind == "id" && ps.peek().text == "in" {
				ps.next()
				if err := ps.expect("["); err != nil {
					return nil, err
				}
				lo, err := ps.expr(0)
				if err != nil {
					return nil, err
				}
				if err := ps.expect(","); err != nil {
					return nil, err
				}
				hi, err := ps.expr(0)
				if err != nil {
					return nil, err
				}
				if err := ps.expect(")"); err != nil {
					return nil, err
				}
				q.Lo, q.Hi = lo, hi
			} else if ps.peek().kind == "id" {
				q.VarTy = ps.next().text
			} else {
				q.VarTy = "int"
			}
			if err := ps.expect(":"); err != nil {
				return nil, err
			}
			body, err := ps.expr(0)
			if err != nil {
				return nil, err
			}
			q.Body = body
			return q, nil
		}
		if ps.isOp("(") {
			ps.next()
			var args []*CExpr
			for !ps.isOp(")") {
				a, err := ps.expr(0)
				if err != nil {
					return nil, err
				}
				args = append(args, a)
				if ps.isOp(",") {
					ps.next()
				} else {
					break
				}
			}
			if err := ps.expect(")"); err != nil {
				return nil, err
			}
			if t.text == "old" && len(args) == 1 {
				return &CExpr{Kind: "old", X: args[0], Pos: t.pos}, nil
			}
			return &CExpr{Kind: "call", Str: t.text, Args: args, Pos: t.pos}, nil
		}
		return &CExpr{Kind: "id", Str: t.text, Pos: t.pos}, nil
	case "op":
		if t.text == "(" {
			e, err := ps.expr(0)
			if err != nil {
				return nil, err
			}
			if err := ps.expect(")"); err != nil {
				return nil, err
			}
			return e, nil
		}
	}
	return nil, fmt.Errorf("unexpected %q at %d in %q", t.text, t.pos, ps.src)
}
