package main

// Bounded stand-in (DESIGN 3.3, 11.7): the tree-level postcondition of Parse — the node invariant that the
// contracts of the renderer, the accessors and the tokeniser *assume* (A-C01-1/2, A-C02-1, A-NODEINV) because the
// tree surgery that establishes it is abstracted — is evaluated on the real Parse for every input up to a stated
// bound by /repo/standin_verif_test.go (build tag verif).  Its result is reported under coverage.bounded, labelled
// bounded, and is never added to obligations/discharged.  A violated clause is a concrete failing input.

import (
	"bufio"
	"encoding/json"
	"fmt"
	"os"
	"os/exec"
	"path/filepath"
	"strconv"
	"strings"
	"time"
)

var standinProps = map[string]string{
	"C01": "root blocks in order, gaps blank, Source = input range with NUL replaced, StartLine, aliasing, buffer unmodified (stands in for A-C01-1, A-C01-2)",
	"C02": "every span valid, inside its parent, siblings in order without overlap, root span ends at len(Source) after spaces/tabs only, no boundary inside a UTF-8 character (stands in for A-C02-1 and the not-decided nesting/order clauses after tree surgery)",
	"C03": "no byte of Source under two leaves; every letter, digit and non-ASCII byte under exactly one leaf (stands in for the not-decided tiling across multi-line constructs)",
	"C05": "node grammar and accessor clauses of the statement on the finished tree (stands in for A-NODEINV and the not-decided link-in-link / phrasing clauses)",
	"C12": "every reference-style link or image names a key of the returned map",
	"C13": "shape of the text selected by each node's span, per construct (stands in for the shapes that depend on tree surgery: emphasis, links, code spans, setext)",
}

type standinViolation struct {
	Clause string `json:"clause"`
	Input  string `json:"input"`
	Detail string `json:"detail"`
}

func (cr *checkRun) runStandin() {
	what, ok := standinProps[cr.prop]
	if !ok {
		return
	}
	start := time.Now()
	args := []string{"test", "-tags", "verif", "-vet=off", "-count=1", "-v", "-run", "^TestVerifStandin$", "-timeout", "1500s", "."}
	cmd := exec.Command("go", args...)
	cmd.Dir = cr.p.repoDir
	cmd.Env = append(os.Environ(), "GOFLAGS=-mod=mod", "GOPROXY=off", "GOSUMDB=off", "GOTOOLCHAIN=local",
		"VERIF_STANDIN_CLAUSES="+cr.prop, "VERIF_STANDIN_LEVEL="+cr.tier, "VERIF_SEED="+strconv.Itoa(cr.seed))
	out, err := cmd.CombinedOutput()
	var viols []standinViolation
	var summary map[string]interface{}
	sc := bufio.NewScanner(strings.NewReader(string(out)))
	sc.Buffer(make([]byte, 1<<20), 1<<24)
	for sc.Scan() {
		line := sc.Text()
		if rest, ok := strings.CutPrefix(line, "STANDIN-VIOLATION "); ok {
			var v standinViolation
			if json.Unmarshal([]byte(rest), &v) == nil {
				viols = append(viols, v)
			}
		}
		if rest, ok := strings.CutPrefix(line, "STANDIN-SUMMARY "); ok {
			json.Unmarshal([]byte(rest), &summary)
		}
	}
	entry := map[string]interface{}{
		"label":    "bounded",
		"function": "commonmark.Parse (tree-level postcondition; the functions that build the tree are abstracted in the contracts)",
		"clauses":  what,
		"harness":  "/repo/standin_verif_test.go (build tag verif): go test -tags verif -run TestVerifStandin",
		"bound":    summary,
		"wall_s":   round2(time.Since(start).Seconds()),
	}
	if summary == nil {
		// the stand-in did not run to the end (does not compile against the changed tree, timed out, crashed)
		entry["error"] = truncate(string(out), 3000)
		if err != nil {
			entry["error_exit"] = err.Error()
		}
		cr.bounded = append(cr.bounded, entry)
		cr.standinFail("commonmark.Parse/bounded:"+cr.prop+"/run", "the bounded stand-in could not be run on this tree", "", truncate(string(out), 3000))
		return
	}
	entry["violations"] = len(viols)
	cr.bounded = append(cr.bounded, entry)
	for _, v := range viols {
		name := "commonmark.Parse/bounded:" + v.Clause
		known := false
		for _, k := range cr.known {
			if k.Status == "open" && k.Property == cr.prop && k.Obligation == name && k.Input == strconv.Quote(v.Input) {
				cr.knownHit = append(cr.knownHit, fmt.Sprintf("%s %s", name, k.What))
				known = true
			}
		}
		if !known {
			cr.standinFail(name, v.Detail, v.Input, "")
		}
	}
}

func (cr *checkRun) standinFail(name, detail, input, output string) {
	dir := filepath.Join(outDir(), "replays", cr.prop)
	os.MkdirAll(dir, 0o755)
	file := filepath.Join(dir, sanitize(name)+".json")
	rec := map[string]interface{}{
		"property":            cr.prop,
		"obligation":          name,
		"clause":              detail,
		"level":               "bounded",
		"solver_status":       "counterexample found by the bounded stand-in on the real code",
		"tier":                cr.tier,
		"failing_input_found": input != "",
	}
	if input != "" {
		rec["standin_input"] = input
		rec["standin_input_quoted"] = strconv.Quote(input)
	}
	if output != "" {
		rec["solver_output"] = output
	}
	b, _ := json.MarshalIndent(rec, "", " ")
	os.WriteFile(file, b, 0o644)
	cr.violations = append(cr.violations, violation{Obligation: name, Replay: file, NoInput: input == ""})
}

// replayStandin re-runs the stand-in on the one recorded input against the current tree.
func replayStandin(rec map[string]interface{}) int {
	input, _ := rec["standin_input"].(string)
	prop, _ := rec["property"].(string)
	cmd := exec.Command("go", "test", "-tags", "verif", "-vet=off", "-count=1", "-v", "-run", "^TestVerifStandin$", "-timeout", "120s", ".")
	cmd.Dir = "/repo"
	cmd.Env = append(os.Environ(), "GOFLAGS=-mod=mod", "GOPROXY=off", "GOSUMDB=off", "GOTOOLCHAIN=local",
		"VERIF_STANDIN_CLAUSES="+prop, "VERIF_STANDIN_INPUT="+strconv.Quote(input))
	out, _ := cmd.CombinedOutput()
	fmt.Printf("obligation: %v\ninput:      %q\n", rec["obligation"], input)
	n := 0
	for _, line := range strings.Split(string(out), "\n") {
		if strings.HasPrefix(line, "STANDIN-") {
			fmt.Println(line)
			if strings.HasPrefix(line, "STANDIN-VIOLATION") {
				n++
			}
		}
	}
	if n > 0 {
		fmt.Println("REPRODUCED: the real code violates the clause on this input")
		return 1
	}
	fmt.Println("not reproduced on the current tree")
	return 0
}
