package main

// SMT term layer: a small typed AST, printing to SMT-LIB 2, light
// simplification.  Go ints are mathematical integers here (range obligations
// are generated separately); bytes are Ints constrained to 0..255 at the
// points where they are read.

import (
	"fmt"
	"math/big"
	"sort"
	"strings"
	"sync/atomic"
)

type Sort string

const (
	SInt  Sort = "Int"
	SBool Sort = "Bool"
	SArrI Sort = "(Array Int Int)"              // index -> int (one byte array, or ref -> int field)
	SArrB Sort = "(Array Int Bool)"             // ref -> bool field
	SArr2 Sort = "(Array Int (Array Int Int))"  // array id -> index -> int
	SAr2B Sort = "(Array Int (Array Int Bool))" // array id -> index -> bool
)

func elemSort(s Sort) Sort {
	switch s {
	case SArrI:
		return SInt
	case SArrB:
		return SBool
	case SArr2:
		return SArrI
	case SAr2B:
		return SArrB
	}
	panic("elemSort of " + string(s))
}

func arrayOf(s Sort) Sort {
	switch s {
	case SInt:
		return SArrI
	case SBool:
		return SArrB
	case SArrI:
		return SArr2
	case SArrB:
		return SAr2B
	}
	panic("arrayOf " + string(s))
}

type Term struct {
	Op    string // "var", "int", "bool", "app" (uninterpreted or builtin fn), "forall", "exists"
	Name  string // var name or function symbol
	Sort  Sort
	Int   *big.Int
	Bool  bool
	Args  []*Term
	Bound []*Term // bound variables for quantifiers
	Pats  [][]*Term

	str atomic.Pointer[string] // cached String(); terms are immutable once built
}

var (
	tTrue  = &Term{Op: "bool", Bool: true, Sort: SBool}
	tFalse = &Term{Op: "bool", Bool: false, Sort: SBool}
)

func Var(name string, s Sort) *Term { return &Term{Op: "var", Name: name, Sort: s} }
func IntC(v int64) *Term            { return &Term{Op: "int", Int: big.NewInt(v), Sort: SInt} }
func BigC(v *big.Int) *Term         { return &Term{Op: "int", Int: new(big.Int).Set(v), Sort: SInt} }
func BoolC(b bool) *Term {
	if b {
		return tTrue
	}
	return tFalse
}

func App(name string, s Sort, args ...*Term) *Term {
	return &Term{Op: "app", Name: name, Sort: s, Args: args}
}

func (t *Term) IsInt() bool   { return t.Op == "int" }
func (t *Term) IsConst() bool { return t.Op == "int" || t.Op == "bool" }
func (t *Term) IsTrue() bool  { return t.Op == "bool" && t.Bool }
func (t *Term) IsFalse() bool { return t.Op == "bool" && !t.Bool }

func sameTerm(a, b *Term) bool {
	if a == b {
		return true
	}
	if a.Op != b.Op || a.Name != b.Name || a.Sort != b.Sort || len(a.Args) != len(b.Args) {
		return false
	}
	switch a.Op {
	case "int":
		return a.Int.Cmp(b.Int) == 0
	case "bool":
		return a.Bool == b.Bool
	case "forall", "exists":
		return false
	}
	for i := range a.Args {
		if !sameTerm(a.Args[i], b.Args[i]) {
			return false
		}
	}
	return true
}

// ---- constructors with light simplification ----

func Add(a, b *Term) *Term {
	if a.IsInt() && b.IsInt() {
		return BigC(new(big.Int).Add(a.Int, b.Int))
	}
	if a.IsInt() && a.Int.Sign() == 0 {
		return b
	}
	if b.IsInt() && b.Int.Sign() == 0 {
		return a
	}
	// (x + c1) + c2
	if b.IsInt() && a.Op == "app" && a.Name == "+" && len(a.Args) == 2 && a.Args[1].IsInt() {
		return Add(a.Args[0], BigC(new(big.Int).Add(a.Args[1].Int, b.Int)))
	}
	return App("+", SInt, a, b)
}
func Sub(a, b *Term) *Term {
	if a.IsInt() && b.IsInt() {
		return BigC(new(big.Int).Sub(a.Int, b.Int))
	}
	if b.IsInt() {
		return Add(a, BigC(new(big.Int).Neg(b.Int)))
	}
	if sameTerm(a, b) {
		return IntC(0)
	}
	return App("-", SInt, a, b)
}
func Mul(a, b *Term) *Term {
	if a.IsInt() && b.IsInt() {
		return BigC(new(big.Int).Mul(a.Int, b.Int))
	}
	if a.IsInt() && a.Int.IsInt64() && a.Int.Int64() == 1 {
		return b
	}
	if b.IsInt() && b.Int.IsInt64() && b.Int.Int64() == 1 {
		return a
	}
	return App("*", SInt, a, b)
}
func Neg(a *Term) *Term { return Sub(IntC(0), a) }

// Go's / and % truncate toward zero; SMT div/mod are Euclidean (floor for
// positive divisor).  GoDiv/GoMod build the truncated versions.
func EDiv(a, b *Term) *Term {
	if a.IsInt() && b.IsInt() && b.Int.Sign() > 0 {
		q, _ := new(big.Int).DivMod(a.Int, b.Int, new(big.Int))
		return BigC(q)
	}
	return App("div", SInt, a, b)
}
func EMod(a, b *Term) *Term {
	if a.IsInt() && b.IsInt() && b.Int.Sign() > 0 {
		return BigC(new(big.Int).Mod(a.Int, b.Int))
	}
	return App("mod", SInt, a, b)
}
func GoDiv(a, b *Term) *Term {
	if a.IsInt() && b.IsInt() && b.Int.Sign() != 0 {
		return BigC(new(big.Int).Quo(a.Int, b.Int))
	}
	if b.IsInt() && b.Int.Sign() > 0 {
		return Ite(Ge(a, IntC(0)), EDiv(a, b), Neg(EDiv(Neg(a), b)))
	}
	// trunc(a/b) = sign handling: if a >= 0 then a div b (b>0) ...
	// general: ite(a>=0, ite(b>0, a div b, -(a div -b)), ite(b>0, -((-a) div b), (-a) div (-b)))
	return Ite(Ge(a, IntC(0)),
		Ite(Gt(b, IntC(0)), EDiv(a, b), Neg(EDiv(a, Neg(b)))),
		Ite(Gt(b, IntC(0)), Neg(EDiv(Neg(a), b)), EDiv(Neg(a), Neg(b))))
}
func GoMod(a, b *Term) *Term {
	if a.IsInt() && b.IsInt() && b.Int.Sign() != 0 {
		return BigC(new(big.Int).Rem(a.Int, b.Int))
	}
	if b.IsInt() && b.Int.Sign() > 0 {
		return Ite(Ge(a, IntC(0)), EMod(a, b), Neg(EMod(Neg(a), b)))
	}
	return Sub(a, Mul(b, GoDiv(a, b)))
}

func cmp(op string, a, b *Term) *Term {
	if a.IsInt() && b.IsInt() {
		c := a.Int.Cmp(b.Int)
		switch op {
		case "<":
			return BoolC(c < 0)
		case "<=":
			return BoolC(c <= 0)
		case ">":
			return BoolC(c > 0)
		case ">=":
			return BoolC(c >= 0)
		}
	}
	return App(op, SBool, a, b)
}
func Lt(a, b *Term) *Term { return cmp("<", a, b) }
func Le(a, b *Term) *Term { return cmp("<=", a, b) }
func Gt(a, b *Term) *Term { return cmp(">", a, b) }
func Ge(a, b *Term) *Term { return cmp(">=", a, b) }

func Eq(a, b *Term) *Term {
	if a.Sort != b.Sort {
		panic(fmt.Sprintf("Eq sort mismatch %s vs %s: %s = %s", a.Sort, b.Sort, a, b))
	}
	if a.IsInt() && b.IsInt() {
		return BoolC(a.Int.Cmp(b.Int) == 0)
	}
	if a.Op == "bool" && b.Op == "bool" {
		return BoolC(a.Bool == b.Bool)
	}
	if a.Sort == SBool {
		if b.IsTrue() {
			return a
		}
		if a.IsTrue() {
			return b
		}
		if b.IsFalse() {
			return Not(a)
		}
		if a.IsFalse() {
			return Not(b)
		}
	}
	if sameTerm(a, b) {
		return tTrue
	}
	return App("=", SBool, a, b)
}
func Ne(a, b *Term) *Term { return Not(Eq(a, b)) }

func Not(a *Term) *Term {
	if a.Op == "bool" {
		return BoolC(!a.Bool)
	}
	if a.Op == "app" && a.Name == "not" {
		return a.Args[0]
	}
	return App("not", SBool, a)
}
func And(as ...*Term) *Term {
	var out []*Term
	for _, a := range as {
		if a == nil || a.IsTrue() {
			continue
		}
		if a.IsFalse() {
			return tFalse
		}
		if a.Op == "app" && a.Name == "and" {
			out = append(out, a.Args...)
			continue
		}
		out = append(out, a)
	}
	switch len(out) {
	case 0:
		return tTrue
	case 1:
		return out[0]
	}
	return App("and", SBool, out...)
}
func Or(as ...*Term) *Term {
	var out []*Term
	for _, a := range as {
		if a == nil || a.IsFalse() {
			continue
		}
		if a.IsTrue() {
			return tTrue
		}
		if a.Op == "app" && a.Name == "or" {
			out = append(out, a.Args...)
			continue
		}
		out = append(out, a)
	}
	switch len(out) {
	case 0:
		return tFalse
	case 1:
		return out[0]
	}
	return App("or", SBool, out...)
}
func Implies(a, b *Term) *Term {
	if a.IsTrue() {
		return b
	}
	if a.IsFalse() || b.IsTrue() {
		return tTrue
	}
	if b.IsFalse() {
		return Not(a)
	}
	return App("=>", SBool, a, b)
}
func Ite(c, a, b *Term) *Term {
	if c.IsTrue() {
		return a
	}
	if c.IsFalse() {
		return b
	}
	if sameTerm(a, b) {
		return a
	}
	if a.Sort == SBool {
		if a.IsTrue() && b.IsFalse() {
			return c
		}
		if a.IsFalse() && b.IsTrue() {
			return Not(c)
		}
	}
	return App("ite", a.Sort, c, a, b)
}
func Select(arr, idx *Term) *Term {
	// select(store(a,i,v), j): fold when i,j syntactically equal or both distinct constants
	for arr.Op == "app" && arr.Name == "store" {
		i := arr.Args[1]
		if sameTerm(i, idx) {
			return arr.Args[2]
		}
		if i.IsInt() && idx.IsInt() {
			arr = arr.Args[0]
			continue
		}
		// i = x + c1, idx = x + c2 with c1 != c2
		if d, ok := constDiff(i, idx); ok && d != 0 {
			arr = arr.Args[0]
			continue
		}
		break
	}
	return App("select", elemSort(arr.Sort), arr, idx)
}

// constDiff returns a-b when both are of the form x+c over the same x.
func constDiff(a, b *Term) (int64, bool) {
	ba, ca := splitConst(a)
	bb, cb := splitConst(b)
	if ba == nil || bb == nil {
		if ba == nil && bb == nil {
			return ca - cb, true
		}
		return 0, false
	}
	if sameTerm(ba, bb) {
		return ca - cb, true
	}
	return 0, false
}
func splitConst(a *Term) (*Term, int64) {
	if a.IsInt() && a.Int.IsInt64() {
		return nil, a.Int.Int64()
	}
	if a.Op == "app" && a.Name == "+" && len(a.Args) == 2 && a.Args[1].IsInt() && a.Args[1].Int.IsInt64() {
		return a.Args[0], a.Args[1].Int.Int64()
	}
	return a, 0
}
func Store(arr, idx, v *Term) *Term {
	if elemSort(arr.Sort) != v.Sort {
		panic(fmt.Sprintf("Store sort mismatch: %s into %s", v.Sort, arr.Sort))
	}
	return App("store", arr.Sort, arr, idx, v)
}
func Forall(bound []*Term, body *Term) *Term {
	if body.IsTrue() {
		return tTrue
	}
	return &Term{Op: "forall", Sort: SBool, Bound: bound, Args: []*Term{body}}
}
func Exists(bound []*Term, body *Term) *Term {
	if body.IsFalse() {
		return tFalse
	}
	return &Term{Op: "exists", Sort: SBool, Bound: bound, Args: []*Term{body}}
}

// ---- printing ----

func quoteName(n string) string {
	ok := true
	for _, r := range n {
		if !(r >= 'a' && r <= 'z' || r >= 'A' && r <= 'Z' || r >= '0' && r <= '9' || r == '_' || r == '.' || r == '$' || r == '!' || r == '@') {
			ok = false
			break
		}
	}
	if ok && n != "" && !(n[0] >= '0' && n[0] <= '9') {
		return "v_" + n // prefix keeps clear of reserved words
	}
	return "|v_" + nameReplacer.Replace(n) + "|"
}

var nameReplacer = strings.NewReplacer("|", "!", "\\", "!")

func (t *Term) String() string {
	if p := t.str.Load(); p != nil {
		return *p
	}
	var sb strings.Builder
	t.write(&sb)
	r := sb.String()
	if t.Op != "var" && t.Op != "int" && t.Op != "bool" {
		t.str.Store(&r)
	}
	return r
}

func (t *Term) write(sb *strings.Builder) {
	switch t.Op {
	case "var":
		sb.WriteString(quoteName(t.Name))
	case "int":
		if t.Int.Sign() < 0 {
			sb.WriteString("(- ")
			sb.WriteString(new(big.Int).Neg(t.Int).String())
			sb.WriteString(")")
		} else {
			sb.WriteString(t.Int.String())
		}
	case "bool":
		if t.Bool {
			sb.WriteString("true")
		} else {
			sb.WriteString("false")
		}
	case "app":
		if t.Name == "zeroarr" {
			sb.WriteString("((as const (Array Int Int)) 0)")
			return
		}
		if t.Name == "falsearr" {
			sb.WriteString("((as const (Array Int Bool)) false)")
			return
		}
		if len(t.Args) == 0 {
			sb.WriteString(fnName(t.Name))
			return
		}
		sb.WriteString("(")
		sb.WriteString(fnName(t.Name))
		for _, a := range t.Args {
			sb.WriteString(" ")
			a.write(sb)
		}
		sb.WriteString(")")
	case "forall", "exists":
		sb.WriteString("(")
		sb.WriteString(t.Op)
		sb.WriteString(" (")
		for i, b := range t.Bound {
			if i > 0 {
				sb.WriteString(" ")
			}
			sb.WriteString("(")
			sb.WriteString(quoteName(b.Name))
			sb.WriteString(" ")
			sb.WriteString(string(b.Sort))
			sb.WriteString(")")
		}
		sb.WriteString(") ")
		if len(t.Pats) > 0 {
			sb.WriteString("(! ")
		}
		t.Args[0].write(sb)
		if len(t.Pats) > 0 {
			for _, p := range t.Pats {
				sb.WriteString(" :pattern (")
				for i, pt := range p {
					if i > 0 {
						sb.WriteString(" ")
					}
					pt.write(sb)
				}
				sb.WriteString(")")
			}
			sb.WriteString(")")
		}
		sb.WriteString(")")
	default:
		panic("bad term op " + t.Op)
	}
}

var builtinFn = map[string]bool{"+": true, "-": true, "*": true, "div": true, "mod": true, "<": true, "<=": true, ">": true, ">=": true,
	"=": true, "not": true, "and": true, "or": true, "=>": true, "ite": true, "select": true, "store": true, "distinct": true}

func fnName(n string) string {
	if builtinFn[n] {
		return n
	}
	return quoteName("f." + n)
}

// collect free variables and uninterpreted function symbols
type declSet struct {
	vars map[string]Sort
	fns  map[string]*Term // representative application (for arity/sorts)
}

func newDeclSet() *declSet { return &declSet{vars: map[string]Sort{}, fns: map[string]*Term{}} }

func (d *declSet) collect(t *Term, bound map[string]bool) {
	switch t.Op {
	case "var":
		if !bound[t.Name] {
			if s, ok := d.vars[t.Name]; ok && s != t.Sort {
				panic(fmt.Sprintf("variable %s used at sorts %s and %s", t.Name, s, t.Sort))
			}
			d.vars[t.Name] = t.Sort
		}
	case "app":
		if !builtinFn[t.Name] && t.Name != "zeroarr" && t.Name != "falsearr" {
			if _, ok := d.fns[t.Name]; !ok {
				d.fns[t.Name] = t
			}
		}
		for _, a := range t.Args {
			d.collect(a, bound)
		}
	case "forall", "exists":
		nb := map[string]bool{}
		for k := range bound {
			nb[k] = true
		}
		for _, b := range t.Bound {
			nb[b.Name] = true
		}
		d.collect(t.Args[0], nb)
		for _, p := range t.Pats {
			for _, pt := range p {
				d.collect(pt, nb)
			}
		}
	}
}

func (d *declSet) emit(sb *strings.Builder) {
	var names []string
	for n := range d.fns {
		names = append(names, n)
	}
	sort.Strings(names)
	for _, n := range names {
		t := d.fns[n]
		sb.WriteString("(declare-fun ")
		sb.WriteString(fnName(n))
		sb.WriteString(" (")
		for i, a := range t.Args {
			if i > 0 {
				sb.WriteString(" ")
			}
			sb.WriteString(string(a.Sort))
		}
		sb.WriteString(") ")
		sb.WriteString(string(t.Sort))
		sb.WriteString(")\n")
	}
	names = names[:0]
	for n := range d.vars {
		names = append(names, n)
	}
	sort.Strings(names)
	for _, n := range names {
		sb.WriteString("(declare-fun ")
		sb.WriteString(quoteName(n))
		sb.WriteString(" () ")
		sb.WriteString(string(d.vars[n]))
		sb.WriteString(")\n")
	}
}

// subst replaces free variables by terms.
func subst(t *Term, m map[string]*Term) *Term {
	switch t.Op {
	case "var":
		if r, ok := m[t.Name]; ok {
			return r
		}
		return t
	case "int", "bool":
		return t
	case "app":
		changed := false
		args := make([]*Term, len(t.Args))
		for i, a := range t.Args {
			args[i] = subst(a, m)
			if args[i] != a {
				changed = true
			}
		}
		if !changed {
			return t
		}
		return rebuild(t, args)
	case "forall", "exists":
		m2 := m
		for _, b := range t.Bound {
			if _, ok := m[b.Name]; ok {
				if &m2 == &m || true {
					m2 = map[string]*Term{}
					for k, v := range m {
						m2[k] = v
					}
				}
				delete(m2, b.Name)
			}
		}
		body := subst(t.Args[0], m2)
		nt := &Term{Op: t.Op, Sort: SBool, Bound: t.Bound, Args: []*Term{body}}
		for _, p := range t.Pats {
			var np []*Term
			for _, pt := range p {
				np = append(np, subst(pt, m2))
			}
			nt.Pats = append(nt.Pats, np)
		}
		return nt
	}
	panic("subst")
}

// rebuild re-applies the simplifying constructors.
func rebuild(t *Term, args []*Term) *Term {
	switch t.Name {
	case "+":
		if len(args) == 2 {
			return Add(args[0], args[1])
		}
	case "-":
		if len(args) == 2 {
			return Sub(args[0], args[1])
		}
	case "*":
		if len(args) == 2 {
			return Mul(args[0], args[1])
		}
	case "div":
		return EDiv(args[0], args[1])
	case "mod":
		return EMod(args[0], args[1])
	case "<", "<=", ">", ">=":
		return cmp(t.Name, args[0], args[1])
	case "=":
		return Eq(args[0], args[1])
	case "not":
		return Not(args[0])
	case "and":
		return And(args...)
	case "or":
		return Or(args...)
	case "=>":
		return Implies(args[0], args[1])
	case "ite":
		return Ite(args[0], args[1], args[2])
	case "select":
		return Select(args[0], args[1])
	}
	return &Term{Op: "app", Name: t.Name, Sort: t.Sort, Args: args}
}

func termSize(t *Term) int {
	n := 1
	for _, a := range t.Args {
		n += termSize(a)
	}
	return n
}
