package main

// Contract files: Go files that contain nothing but a build tag, a package
// clause and //@ comment lines.  See DESIGN.md 2.2 and appendix D.

import (
	"fmt"
	"os"
	"path/filepath"
	"sort"
	"strconv"
	"strings"
)

type Clause struct {
	Label string
	Expr  *CExpr
	Text  string
	Line  int
	File  string
}

type LoopSpec struct {
	Ordinal    int
	Invariants []Clause
	Decreases  *Clause
	Uses       []*CExpr // lemma instances assumed at the head (after havoc) and at the back edge
	Steps      []Clause // two-state obligations at the back edge: prev(e) is e at the head of the same iteration
}

type ParamDecl struct {
	Name string
	Type string
}

type FuncContract struct {
	Key         string // e.g. "parseATXHeading", "(*BlockParser).readline", "format.codeFenceChar"
	Pkg         string // "commonmark" or "format"
	Requires    []Clause
	Ensures     []Clause
	Loops       map[int]*LoopSpec
	Modifies    []string
	Serves      []string
	Uses        []*CExpr
	InlineAtCalls bool // the contract is checked on the function itself; call sites inline the body
	Inline      bool   // no contract: always inline at call sites
	Trusted     string // non-empty: body not verified, reason
	NotClaim    string
	Pure        bool
	Line        int
	File        string
	Ghosts      []string
	GhostDecls  []GhostDecl   // ghost NAME = INIT: integer ghost variables, initialised at entry
	GhostSteps  []GhostUpdate // site append: ghost NAME = EXPR: updates executed at every append site, in order
	MapSites    []Clause                 // obligations at every map update of the function ($map, $key, $value)
	StoreReq    map[string][]Clause      // "field#n" -> obligations before the n-th store to that field ($new is the stored value)
	StoreUse    map[string][]*CExpr      // "field#n" -> lemma instances assumed at that store
	StoreGhost  map[string][]GhostUpdate // "field#n" -> ghost updates at that store (evaluated before it)
	StoreSites  map[string][]string // field name -> the only operations whose result may be stored into that field ("append", callee keys)
	CallUse     map[string][]*CExpr      // callsite X: use LEMMA(args): lemma instances assumed after the call ($result, $0...)
	CallGhost   map[string][]GhostUpdate // callsite SIG: ghost NAME = EXPR: updates after a call through a function value ($result)
	SafetyOff   map[string]string   // safety class -> reason (not claimed)
	InlineCalls []string            // callees to inline here even though they have a contract
	ContractCalls []string          // callees whose contract is applied here although they are marked "inlined"
	HavocKeeps  map[string][]string // callee -> struct types whose fields the abstraction keeps (justified structurally, keeps.go)
	HavocCalls  []string            // callees abstracted by "anything may have happened to the heap" (sound over-approximation)
	CallSites   map[string][]Clause // signature string -> obligations at every call through a function value of that type
	Unclaimed   map[string]string   // obligation class (e.g. "post:foo") -> reason it is not claimed
	AppendSites []Clause            // obligations at every append to a []byte in the function ($src, $dst)
	Alphabet    string              // for bounded search
	MaxLen      int
}

type GhostDecl struct {
	Name  string
	Init  *CExpr
	Array bool // an int-indexed ghost array, every element initialised to Init
}

type GhostUpdate struct {
	Name string
	Expr *CExpr
	Text string
}

type SpecFunc struct {
	Name      string
	Params    []ParamDecl
	Result    string
	Body      *CExpr
	Text      string
	Recursive bool
	Opaque    bool // declared "spec opaque": treated like a recursive spec (uninterpreted, unfolded at ground applications)
	UsesLen   []bool // per parameter: does the body depend on len(param)?
	File      string
	Line      int
}

type Lemma struct {
	Name     string
	Params   []ParamDecl
	Requires []Clause
	Ensures  []Clause
	IndVar   string // induction variable
	IndDir   string // "from" (IH at v-1 when v > bound) or "upto" (IH at v+1 when v < bound)
	IndBound *CExpr
	Measure  *CExpr   // decreases clause for explicit induction hypotheses
	IHs      []*CExpr // explicit induction-hypothesis instances: applications of this lemma
	Trigger  *CExpr   // auto-instantiation trigger (an application of a spec function over the params)
	Uses     []*CExpr // other lemma instances to assume in the proof
	Serves   []string
	File     string
	Line     int
}

type Contracts struct {
	Callbacks       map[string]string        // signature string -> "pure" | "impure"
	CallbackEnsures map[string]*CExpr        // assumed postcondition over "result"
	Funcs           map[string]*FuncContract // key: pkg + "." + Key
	Specs           map[string]*SpecFunc
	Lemmas          map[string]*Lemma
	Order           []string // func keys in file order
	Scan            []string // lines containing assume/admit/trusted
	FieldRanges     map[string][2]int64 // heap key -> assumed value range of an integer field (standing assumption, listed in the evidence)
	FieldRangeWhy   map[string]string
}

var clauseKeywords = map[string]bool{"requires": true, "ensures": true, "loop": true, "modifies": true, "serves": true,
	"use": true, "inline": true, "trusted": true, "status:": true, "pure": true, "induction": true, "trigger": true,
	"nosafety": true, "alphabet": true, "maxlen": true, "decreases": true, "ih": true, "unclaimed": true, "inlinecall": true, "contractcall": true, "callsite": true, "site": true, "havoccall": true, "ghost": true, "inlined": true}

func loadContracts(dirs map[string]string) (*Contracts, error) {
	cs := &Contracts{Funcs: map[string]*FuncContract{}, Specs: map[string]*SpecFunc{}, Lemmas: map[string]*Lemma{}}
	var pkgs []string
	for p := range dirs {
		pkgs = append(pkgs, p)
	}
	sort.Strings(pkgs)
	for _, pkg := range pkgs {
		files, _ := filepath.Glob(filepath.Join(dirs[pkg], "*_verif.go"))
		sort.Strings(files)
		for _, f := range files {
			data, err := os.ReadFile(f)
			if err != nil {
				return nil, err
			}
			if err := cs.parseFile(pkg, f, string(data)); err != nil {
				return nil, err
			}
		}
	}
	for _, sf := range cs.Specs {
		sf.Recursive = sf.Opaque || callsSpec(sf.Body, sf.Name, cs, map[string]bool{})
		sf.UsesLen = make([]bool, len(sf.Params))
	}
	// fixpoint: a sequence parameter "uses its length" unless it only occurs as s[i]
	// or as an argument in a position that itself does not use the length
	for changed := true; changed; {
		changed = false
		for _, sf := range cs.Specs {
			for i, p := range sf.Params {
				if sf.UsesLen[i] || !isSeqType(p.Type) {
					continue
				}
				if seqUsesLen(sf.Body, p.Name, cs) {
					sf.UsesLen[i] = true
					changed = true
				}
			}
		}
	}
	return cs, nil
}

func callsSpec(e *CExpr, target string, cs *Contracts, seen map[string]bool) bool {
	if e == nil {
		return false
	}
	if e.Kind == "call" {
		if e.Str == target {
			return true
		}
		if sf, ok := cs.Specs[e.Str]; ok && !seen[e.Str] {
			seen[e.Str] = true
			if callsSpec(sf.Body, target, cs, seen) {
				return true
			}
		}
	}
	for _, c := range []*CExpr{e.X, e.Y, e.Z, e.Lo, e.Hi, e.Body} {
		if callsSpec(c, target, cs, seen) {
			return true
		}
	}
	for _, a := range e.Args {
		if callsSpec(a, target, cs, seen) {
			return true
		}
	}
	return false
}

func seqUsesLen(e *CExpr, name string, cs *Contracts) bool {
	if e == nil {
		return false
	}
	switch e.Kind {
	case "id":
		return e.Str == name // bare occurrence (comparison, slicing base handled below)
	case "index":
		if e.X.Kind == "id" && e.X.Str == name {
			return seqUsesLen(e.Y, name, cs)
		}
	case "call":
		if sf, ok := cs.Specs[e.Str]; ok && len(sf.Params) == len(e.Args) {
			for i, a := range e.Args {
				if a.Kind == "id" && a.Str == name {
					if sf.UsesLen[i] {
						return true
					}
					continue
				}
				if seqUsesLen(a, name, cs) {
					return true
				}
			}
			return false
		}
	case "forall", "exists":
		if e.Var == name {
			return false
		}
	}
	for _, c := range []*CExpr{e.X, e.Y, e.Z, e.Lo, e.Hi, e.Body} {
		if seqUsesLen(c, name, cs) {
			return true
		}
	}
	for _, a := range e.Args {
		if seqUsesLen(a, name, cs) {
			return true
		}
	}
	return false
}

type rawEntry struct {
	head    string
	clauses []rawClause
	line    int
}
type rawClause struct {
	text string
	line int
}

func (cs *Contracts) parseFile(pkg, file, data string) error {
	var entries []*rawEntry
	var cur *rawEntry
	for i, line := range strings.Split(data, "\n") {
		ln := i + 1
		tl := strings.TrimSpace(line)
		if !strings.HasPrefix(tl, "//@") {
			continue
		}
		body := tl[3:]
		low := strings.ToLower(body)
		if strings.Contains(low, "assume") || strings.Contains(low, "admit") || strings.Contains(low, "trusted") {
			cs.Scan = append(cs.Scan, fmt.Sprintf("%s:%d:%s", filepath.Base(file), ln, strings.TrimSpace(body)))
		}
		trimmed := strings.TrimSpace(body)
		if trimmed == "" {
			continue
		}
		if strings.HasPrefix(trimmed, "--") { // comment inside contract file
			continue
		}
		first := strings.Fields(trimmed)[0]
		if j := strings.Index(first, "["); j > 0 {
			first = first[:j]
		}
		isTop := strings.HasPrefix(body, " ") && !strings.HasPrefix(body, "  ")
		if isTop && first == "callback" {
			f := strings.Fields(trimmed)
			if len(f) < 3 || (f[1] != "pure" && f[1] != "impure") {
				return fmt.Errorf("%s:%d: callback pure|impure SIGNATURE", file, ln)
			}
			if cs.Callbacks == nil {
				cs.Callbacks = map[string]string{}
			}
			rest := strings.Join(f[2:], " ")
			if j := strings.Index(rest, " ensures "); j >= 0 {
				ex, err := parseCExpr(strings.TrimSpace(rest[j+9:]))
				if err != nil {
					return fmt.Errorf("%s:%d: %v", file, ln, err)
				}
				rest = strings.TrimSpace(rest[:j])
				if cs.CallbackEnsures == nil {
					cs.CallbackEnsures = map[string]*CExpr{}
				}
				cs.CallbackEnsures[rest] = ex
			}
			cs.Callbacks[rest] = f[1]
			cur = nil
			continue
		}
		if isTop && first == "fieldrange" {
			// fieldrange pkg.Type.field LO HI reason...
			f := strings.Fields(trimmed)
			if len(f) < 4 {
				return fmt.Errorf("%s:%d: fieldrange pkg.Type.field LO HI reason", file, ln)
			}
			lo, err1 := strconv.ParseInt(f[2], 0, 64)
			hi, err2 := strconv.ParseInt(f[3], 0, 64)
			if err1 != nil || err2 != nil {
				return fmt.Errorf("%s:%d: fieldrange bounds", file, ln)
			}
			if cs.FieldRanges == nil {
				cs.FieldRanges = map[string][2]int64{}
				cs.FieldRangeWhy = map[string]string{}
			}
			cs.FieldRanges["F:"+f[1]] = [2]int64{lo, hi}
			cs.FieldRanges["E:"+f[1]] = [2]int64{lo, hi} // the same field of a struct stored in a slice element
			cs.FieldRangeWhy["F:"+f[1]] = strings.Join(f[4:], " ")
			cur = nil
			continue
		}
		if isTop && (first == "func" || first == "spec" || first == "lemma") {
			cur = &rawEntry{head: trimmed, line: ln}
			entries = append(entries, cur)
			continue
		}
		if cur == nil {
			return fmt.Errorf("%s:%d: clause outside entry", file, ln)
		}
		if clauseKeywords[first] {
			cur.clauses = append(cur.clauses, rawClause{text: trimmed, line: ln})
		} else if len(cur.clauses) > 0 {
			cur.clauses[len(cur.clauses)-1].text += " " + trimmed
		} else {
			cur.head += " " + trimmed
		}
	}
	for _, e := range entries {
		var err error
		switch strings.Fields(e.head)[0] {
		case "func":
			err = cs.parseFunc(pkg, file, e)
		case "spec":
			err = cs.parseSpec(pkg, file, e)
		case "lemma":
			err = cs.parseLemma(pkg, file, e)
		}
		if err != nil {
			return fmt.Errorf("%s:%d: %v", file, e.line, err)
		}
	}
	return nil
}

// splitLabel parses "ensures[label] expr" / "invariant[label] expr".
func splitLabel(kw, text string) (label, rest string) {
	rest = strings.TrimSpace(strings.TrimPrefix(text, kw))
	if strings.HasPrefix(rest, "[") {
		if j := strings.Index(rest, "]"); j > 0 {
			return rest[1:j], strings.TrimSpace(rest[j+1:])
		}
	}
	return "", rest
}

func mkClause(file string, line int, label, text string) (Clause, error) {
	e, err := parseCExpr(text)
	if err != nil {
		return Clause{}, fmt.Errorf("line %d: %v", line, err)
	}
	return Clause{Label: label, Expr: e, Text: text, Line: line, File: filepath.Base(file)}, nil
}

func (cs *Contracts) parseFunc(pkg, file string, e *rawEntry) error {
	key := strings.TrimSpace(strings.TrimPrefix(e.head, "func"))
	fc := &FuncContract{Key: key, Pkg: pkg, Loops: map[int]*LoopSpec{}, Line: e.line, File: filepath.Base(file), SafetyOff: map[string]string{}, Unclaimed: map[string]string{}}
	for _, c := range e.clauses {
		kw := strings.Fields(c.text)[0]
		if j := strings.Index(kw, "["); j > 0 {
			kw = kw[:j]
		}
		switch kw {
		case "requires", "ensures":
			label, rest := splitLabel(kw, c.text)
			cl, err := mkClause(file, c.line, label, rest)
			if err != nil {
				return err
			}
			if kw == "requires" {
				if cl.Label == "" {
					cl.Label = strconv.Itoa(len(fc.Requires))
				}
				fc.Requires = append(fc.Requires, cl)
			} else {
				if cl.Label == "" {
					cl.Label = strconv.Itoa(len(fc.Ensures))
				}
				fc.Ensures = append(fc.Ensures, cl)
			}
		case "loop":
			// loop N: invariant[label] E | loop N: decreases E | loop N: use L(args)
			rest := strings.TrimSpace(strings.TrimPrefix(c.text, "loop"))
			j := strings.Index(rest, ":")
			if j < 0 {
				return fmt.Errorf("line %d: loop clause needs ':'", c.line)
			}
			ord, err := strconv.Atoi(strings.TrimSpace(rest[:j]))
			if err != nil {
				return fmt.Errorf("line %d: bad loop ordinal", c.line)
			}
			rest = strings.TrimSpace(rest[j+1:])
			ls := fc.Loops[ord]
			if ls == nil {
				ls = &LoopSpec{Ordinal: ord}
				fc.Loops[ord] = ls
			}
			switch {
			case strings.HasPrefix(rest, "invariant"):
				label, ex := splitLabel("invariant", rest)
				cl, err := mkClause(file, c.line, label, ex)
				if err != nil {
					return err
				}
				if cl.Label == "" {
					cl.Label = strconv.Itoa(len(ls.Invariants))
				}
				ls.Invariants = append(ls.Invariants, cl)
			case strings.HasPrefix(rest, "step"):
				label, ex := splitLabel("step", rest)
				cl, err := mkClause(file, c.line, label, ex)
				if err != nil {
					return err
				}
				if cl.Label == "" {
					cl.Label = strconv.Itoa(len(ls.Steps))
				}
				ls.Steps = append(ls.Steps, cl)
			case strings.HasPrefix(rest, "decreases"):
				cl, err := mkClause(file, c.line, "dec", strings.TrimSpace(strings.TrimPrefix(rest, "decreases")))
				if err != nil {
					return err
				}
				ls.Decreases = &cl
			case strings.HasPrefix(rest, "use"):
				ex, err := parseCExpr(strings.TrimSpace(strings.TrimPrefix(rest, "use")))
				if err != nil {
					return fmt.Errorf("line %d: %v", c.line, err)
				}
				ls.Uses = append(ls.Uses, ex)
			default:
				return fmt.Errorf("line %d: unknown loop clause %q", c.line, rest)
			}
		case "modifies":
			for _, m := range strings.Split(strings.TrimSpace(strings.TrimPrefix(c.text, "modifies")), ",") {
				if m = strings.TrimSpace(m); m != "" {
					fc.Modifies = append(fc.Modifies, m)
				}
			}
		case "serves":
			for _, m := range strings.Split(strings.TrimSpace(strings.TrimPrefix(c.text, "serves")), ",") {
				if m = strings.TrimSpace(m); m != "" {
					fc.Serves = append(fc.Serves, m)
				}
			}
		case "use":
			ex, err := parseCExpr(strings.TrimSpace(strings.TrimPrefix(c.text, "use")))
			if err != nil {
				return fmt.Errorf("line %d: %v", c.line, err)
			}
			fc.Uses = append(fc.Uses, ex)
		case "inline":
			fc.Inline = true
		case "inlined":
			// verified on its own, but callers keep executing its body (small loop-free functions)
			fc.InlineAtCalls = true
		case "pure":
			fc.Pure = true
		case "trusted":
			fc.Trusted = strings.TrimSpace(strings.TrimPrefix(c.text, "trusted"))
			if fc.Trusted == "" {
				fc.Trusted = "trusted"
			}
		case "status:":
			fc.NotClaim = strings.TrimSpace(strings.TrimPrefix(c.text, "status:"))
		case "nosafety":
			f := strings.Fields(c.text)
			if len(f) < 2 {
				return fmt.Errorf("line %d: nosafety needs a class", c.line)
			}
			fc.SafetyOff[f[1]] = strings.Join(f[2:], " ")
		case "callsite":
			// callsite <signature>: requires[label] EXPR
			rest := strings.TrimSpace(strings.TrimPrefix(c.text, "callsite"))
			if j := strings.Index(rest, ": use "); j >= 0 {
				sig := strings.TrimSpace(rest[:j])
				ex, err := parseCExpr(strings.TrimSpace(rest[j+len(": use "):]))
				if err != nil {
					return fmt.Errorf("line %d: %v", c.line, err)
				}
				if fc.CallUse == nil {
					fc.CallUse = map[string][]*CExpr{}
				}
				fc.CallUse[sig] = append(fc.CallUse[sig], ex)
				continue
			}
			if j := strings.Index(rest, ": ghost "); j >= 0 {
				sig := strings.TrimSpace(rest[:j])
				g := strings.TrimSpace(rest[j+len(": ghost "):])
				eq := strings.Index(g, "=")
				if eq < 0 {
					return fmt.Errorf("line %d: callsite SIG: ghost NAME = EXPR", c.line)
				}
				ex, err := parseCExpr(strings.TrimSpace(g[eq+1:]))
				if err != nil {
					return fmt.Errorf("line %d: %v", c.line, err)
				}
				if fc.CallGhost == nil {
					fc.CallGhost = map[string][]GhostUpdate{}
				}
				fc.CallGhost[sig] = append(fc.CallGhost[sig], GhostUpdate{Name: strings.TrimSpace(g[:eq]), Expr: ex, Text: g})
				continue
			}
			j := strings.Index(rest, ": requires")
			if j < 0 {
				return fmt.Errorf("line %d: callsite SIG: requires EXPR", c.line)
			}
			sig := strings.TrimSpace(rest[:j])
			label, ex := splitLabel("requires", strings.TrimSpace(rest[j+1:]))
			cl, err := mkClause(file, c.line, label, ex)
			if err != nil {
				return err
			}
			if fc.CallSites == nil {
				fc.CallSites = map[string][]Clause{}
			}
			if cl.Label == "" {
				cl.Label = strconv.Itoa(len(fc.CallSites[sig]))
			}
			fc.CallSites[sig] = append(fc.CallSites[sig], cl)
		case "site":
			// site append: requires[label] EXPR
			rest := strings.TrimSpace(strings.TrimPrefix(c.text, "site"))
			if strings.HasPrefix(rest, "mapupdate:") {
				// site mapupdate: requires[label] EXPR   ($map, $key, $value)
				label, ex := splitLabel("requires", strings.TrimSpace(strings.TrimPrefix(rest, "mapupdate:")))
				cl, err := mkClause(file, c.line, label, ex)
				if err != nil {
					return err
				}
				if cl.Label == "" {
					cl.Label = strconv.Itoa(len(fc.MapSites))
				}
				fc.MapSites = append(fc.MapSites, cl)
				continue
			}
			if strings.HasPrefix(rest, "store ") && !strings.Contains(rest, ": from") {
				// site store FIELD#N: requires[label] EXPR | site store FIELD#N: ghost NAME = EXPR
				j := strings.Index(rest, ":")
				if j < 0 {
					return fmt.Errorf("line %d: site store FIELD#N: requires EXPR", c.line)
				}
				key := strings.TrimSpace(rest[len("store "):j])
				body := strings.TrimSpace(rest[j+1:])
				if strings.HasPrefix(body, "use ") {
					ex, err := parseCExpr(strings.TrimSpace(strings.TrimPrefix(body, "use ")))
					if err != nil {
						return fmt.Errorf("line %d: %v", c.line, err)
					}
					if fc.StoreUse == nil {
						fc.StoreUse = map[string][]*CExpr{}
					}
					fc.StoreUse[key] = append(fc.StoreUse[key], ex)
					continue
				}
				if strings.HasPrefix(body, "ghost ") {
					g := strings.TrimSpace(strings.TrimPrefix(body, "ghost "))
					eq := strings.Index(g, "=")
					if eq < 0 {
						return fmt.Errorf("line %d: site store: ghost NAME = EXPR", c.line)
					}
					ex, err := parseCExpr(strings.TrimSpace(g[eq+1:]))
					if err != nil {
						return fmt.Errorf("line %d: %v", c.line, err)
					}
					if fc.StoreGhost == nil {
						fc.StoreGhost = map[string][]GhostUpdate{}
					}
					fc.StoreGhost[key] = append(fc.StoreGhost[key], GhostUpdate{Name: strings.TrimSpace(g[:eq]), Expr: ex, Text: g})
					continue
				}
				label, ex := splitLabel("requires", body)
				cl, err := mkClause(file, c.line, label, ex)
				if err != nil {
					return err
				}
				if fc.StoreReq == nil {
					fc.StoreReq = map[string][]Clause{}
				}
				if cl.Label == "" {
					cl.Label = strconv.Itoa(len(fc.StoreReq[key]))
				}
				fc.StoreReq[key] = append(fc.StoreReq[key], cl)
				continue
			}
			if strings.HasPrefix(rest, "store ") {
				// site store FIELD: from append, callee, ...
				j := strings.Index(rest, ": from")
				if j < 0 {
					return fmt.Errorf("line %d: site store FIELD: from OP, ...", c.line)
				}
				field := strings.TrimSpace(rest[len("store "):j])
				if fc.StoreSites == nil {
					fc.StoreSites = map[string][]string{}
				}
				for _, m := range strings.Split(rest[j+len(": from"):], ",") {
					if m = strings.TrimSpace(m); m != "" {
						fc.StoreSites[field] = append(fc.StoreSites[field], m)
					}
				}
				continue
			}
			if !strings.HasPrefix(rest, "append:") {
				return fmt.Errorf("line %d: site append: requires EXPR", c.line)
			}
			rest = strings.TrimSpace(strings.TrimPrefix(rest, "append:"))
			if strings.HasPrefix(rest, "ghost ") {
				g := strings.TrimSpace(strings.TrimPrefix(rest, "ghost "))
				eq := strings.Index(g, "=")
				if eq < 0 {
					return fmt.Errorf("line %d: site append: ghost NAME = EXPR", c.line)
				}
				ex, err := parseCExpr(strings.TrimSpace(g[eq+1:]))
				if err != nil {
					return fmt.Errorf("line %d: %v", c.line, err)
				}
				fc.GhostSteps = append(fc.GhostSteps, GhostUpdate{Name: strings.TrimSpace(g[:eq]), Expr: ex, Text: g})
				continue
			}
			label, ex := splitLabel("requires", rest)
			cl, err := mkClause(file, c.line, label, ex)
			if err != nil {
				return err
			}
			if cl.Label == "" {
				cl.Label = strconv.Itoa(len(fc.AppendSites))
			}
			fc.AppendSites = append(fc.AppendSites, cl)
		case "ghost":
			g := strings.TrimSpace(strings.TrimPrefix(c.text, "ghost"))
			eq := strings.Index(g, "=")
			if eq < 0 {
				return fmt.Errorf("line %d: ghost NAME = EXPR", c.line)
			}
			ex, err := parseCExpr(strings.TrimSpace(g[eq+1:]))
			if err != nil {
				return fmt.Errorf("line %d: %v", c.line, err)
			}
			gname := strings.Fields(g[:eq])[0]
			isArr := strings.HasSuffix(gname, "[]")
			fc.GhostDecls = append(fc.GhostDecls, GhostDecl{Name: strings.TrimSuffix(gname, "[]"), Init: ex, Array: isArr})
		case "havoccall":
			// havoccall f, g [keeps T, U]
			rest := strings.TrimSpace(strings.TrimPrefix(c.text, "havoccall"))
			var keeps []string
			if j := strings.Index(rest, " keeps "); j >= 0 {
				for _, k := range strings.Split(rest[j+len(" keeps "):], ",") {
					if k = strings.TrimSpace(k); k != "" {
						keeps = append(keeps, k)
					}
				}
				rest = rest[:j]
			}
			for _, m := range strings.Split(rest, ",") {
				if m = strings.TrimSpace(m); m != "" {
					fc.HavocCalls = append(fc.HavocCalls, m)
					if fc.HavocKeeps == nil {
						fc.HavocKeeps = map[string][]string{}
					}
					fc.HavocKeeps[m] = keeps
				}
			}
		case "inlinecall":
			for _, m := range strings.Split(strings.TrimSpace(strings.TrimPrefix(c.text, "inlinecall")), ",") {
				if m = strings.TrimSpace(m); m != "" {
					fc.InlineCalls = append(fc.InlineCalls, m)
				}
			}
		case "contractcall":
			for _, m := range strings.Split(strings.TrimSpace(strings.TrimPrefix(c.text, "contractcall")), ",") {
				if m = strings.TrimSpace(m); m != "" {
					fc.ContractCalls = append(fc.ContractCalls, m)
				}
			}
		case "unclaimed":
			f := strings.Fields(c.text)
			if len(f) < 3 {
				return fmt.Errorf("line %d: unclaimed CLASS reason", c.line)
			}
			fc.Unclaimed[f[1]] = strings.Join(f[2:], " ")
		case "alphabet":
			s, err := strconv.Unquote(strings.TrimSpace(strings.TrimPrefix(c.text, "alphabet")))
			if err != nil {
				return fmt.Errorf("line %d: alphabet: %v", c.line, err)
			}
			fc.Alphabet = s
		case "maxlen":
			n, err := strconv.Atoi(strings.TrimSpace(strings.TrimPrefix(c.text, "maxlen")))
			if err != nil {
				return fmt.Errorf("line %d: maxlen: %v", c.line, err)
			}
			fc.MaxLen = n
		default:
			return fmt.Errorf("line %d: unknown clause %q", c.line, kw)
		}
	}
	full := pkg + "." + key
	if _, dup := cs.Funcs[full]; dup {
		return fmt.Errorf("duplicate contract for %s", full)
	}
	cs.Funcs[full] = fc
	cs.Order = append(cs.Order, full)
	return nil
}

func parseParams(s string) ([]ParamDecl, error) {
	var ps []ParamDecl
	s = strings.TrimSpace(s)
	if s == "" {
		return nil, nil
	}
	for _, part := range strings.Split(s, ",") {
		f := strings.Fields(part)
		if len(f) != 2 {
			return nil, fmt.Errorf("bad parameter %q", part)
		}
		ps = append(ps, ParamDecl{Name: f[0], Type: f[1]})
	}
	return ps, nil
}

// "spec Name(params) type = expr"
func (cs *Contracts) parseSpec(pkg, file string, e *rawEntry) error {
	text := strings.TrimSpace(strings.TrimPrefix(e.head, "spec"))
	for _, c := range e.clauses {
		text += " " + c.text
	}
	lp := strings.Index(text, "(")
	rp := matchParen(text, lp)
	if lp < 0 || rp < 0 {
		return fmt.Errorf("bad spec header %q", text)
	}
	name := strings.TrimSpace(text[:lp])
	// "spec opaque F(...)": F is kept as an uninterpreted symbol (like a recursive spec function): its defining
	// equation is supplied at the ground applications of a VC only, never under a quantifier
	opaque := false
	if rest, ok := strings.CutPrefix(name, "opaque "); ok {
		opaque = true
		name = strings.TrimSpace(rest)
	}
	params, err := parseParams(text[lp+1 : rp])
	if err != nil {
		return err
	}
	rest := strings.TrimSpace(text[rp+1:])
	eq := strings.Index(rest, "=")
	if eq < 0 {
		return fmt.Errorf("spec %s: missing '='", name)
	}
	rt := strings.TrimSpace(rest[:eq])
	body, err := parseCExpr(strings.TrimSpace(rest[eq+1:]))
	if err != nil {
		return fmt.Errorf("spec %s: %v", name, err)
	}
	if _, dup := cs.Specs[name]; dup {
		return fmt.Errorf("duplicate spec %s", name)
	}
	cs.Specs[name] = &SpecFunc{Name: name, Params: params, Result: rt, Body: body, Text: strings.TrimSpace(rest[eq+1:]), File: filepath.Base(file), Line: e.line, Opaque: opaque}
	return nil
}

func matchParen(s string, lp int) int {
	if lp < 0 {
		return -1
	}
	d := 0
	for i := lp; i < len(s); i++ {
		switch s[i] {
		case '(':
			d++
		case ')':
			d--
			if d == 0 {
				return i
			}
		}
	}
	return -1
}

func (cs *Contracts) parseLemma(pkg, file string, e *rawEntry) error {
	text := strings.TrimSpace(strings.TrimPrefix(e.head, "lemma"))
	lp := strings.Index(text, "(")
	rp := matchParen(text, lp)
	if lp < 0 || rp < 0 {
		return fmt.Errorf("bad lemma header %q", text)
	}
	lm := &Lemma{Name: strings.TrimSpace(text[:lp]), File: filepath.Base(file), Line: e.line}
	var err error
	lm.Params, err = parseParams(text[lp+1 : rp])
	if err != nil {
		return err
	}
	for _, c := range e.clauses {
		kw := strings.Fields(c.text)[0]
		if j := strings.Index(kw, "["); j > 0 {
			kw = kw[:j]
		}
		switch kw {
		case "requires", "ensures":
			label, rest := splitLabel(kw, c.text)
			cl, err := mkClause(file, c.line, label, rest)
			if err != nil {
				return err
			}
			if kw == "requires" {
				lm.Requires = append(lm.Requires, cl)
			} else {
				if cl.Label == "" {
					cl.Label = strconv.Itoa(len(lm.Ensures))
				}
				lm.Ensures = append(lm.Ensures, cl)
			}
		case "induction":
			f := strings.Fields(c.text)
			if len(f) < 4 || (f[2] != "from" && f[2] != "upto") {
				return fmt.Errorf("line %d: induction VAR from|upto BOUND", c.line)
			}
			lm.IndVar, lm.IndDir = f[1], f[2]
			lm.IndBound, err = parseCExpr(strings.Join(f[3:], " "))
			if err != nil {
				return err
			}
		case "trigger":
			lm.Trigger, err = parseCExpr(strings.TrimSpace(strings.TrimPrefix(c.text, "trigger")))
			if err != nil {
				return err
			}
		case "decreases":
			lm.Measure, err = parseCExpr(strings.TrimSpace(strings.TrimPrefix(c.text, "decreases")))
			if err != nil {
				return err
			}
		case "ih":
			ex, err := parseCExpr(strings.TrimSpace(strings.TrimPrefix(c.text, "ih")))
			if err != nil {
				return err
			}
			if ex.Kind != "call" || ex.Str != lm.Name {
				return fmt.Errorf("line %d: ih must be an application of %s", c.line, lm.Name)
			}
			lm.IHs = append(lm.IHs, ex)
		case "use":
			ex, err := parseCExpr(strings.TrimSpace(strings.TrimPrefix(c.text, "use")))
			if err != nil {
				return err
			}
			lm.Uses = append(lm.Uses, ex)
		case "serves":
			for _, m := range strings.Split(strings.TrimSpace(strings.TrimPrefix(c.text, "serves")), ",") {
				if m = strings.TrimSpace(m); m != "" {
					lm.Serves = append(lm.Serves, m)
				}
			}
		default:
			return fmt.Errorf("line %d: unknown lemma clause %q", c.line, kw)
		}
	}
	if _, dup := cs.Lemmas[lm.Name]; dup {
		return fmt.Errorf("duplicate lemma %s", lm.Name)
	}
	cs.Lemmas[lm.Name] = lm
	return nil
}
