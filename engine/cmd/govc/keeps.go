package main

// "havoccall f keeps T": the abstraction of a call to f by "anything may have
// happened to the heap" may keep the fields of objects of struct type T when no
// function reachable from f can write such a field.  That is a structural,
// modular frame fact decided here over the SSA (no SMT):
//   (1) nowhere in the two packages does the address of a field of T escape
//       (every FieldAddr on *T is used only as the operand of a load, as the
//       target of a store, or as the base of a further FieldAddr), so a field of
//       T can only be written by a store whose address is syntactically such a
//       FieldAddr, or by a store through a *T;
//   (2) no function reachable from f (static callees, closures created, function
//       values mentioned; at a call through a function value or interface, every
//       function of the packages whose address is taken) contains such a store
//       to an object that is not freshly allocated in that function.

import (
	"fmt"
	"go/token"
	"go/types"
	"strings"
	"sync"

	"golang.org/x/tools/go/ssa"
)

var keepsMu sync.Mutex
var keepsCache = map[string]string{}

func namedStructPtr(t types.Type, name string) bool {
	p, ok := t.Underlying().(*types.Pointer)
	if !ok {
		return false
	}
	n, ok := p.Elem().(*types.Named)
	return ok && n.Obj().Name() == name
}

// fieldOfT: v is the address of a (possibly nested) field of a T object.
func fieldOfT(v ssa.Value, name string) (bool, ssa.Value) {
	for {
		fa, ok := v.(*ssa.FieldAddr)
		if !ok {
			return false, nil
		}
		if namedStructPtr(fa.X.Type(), name) {
			return true, fa.X
		}
		v = fa.X
	}
}

func (p *Program) addressTaken() map[*ssa.Function]bool {
	out := map[*ssa.Function]bool{}
	for _, fn := range p.allFuncsIncludingSynthetic() {
		for _, b := range fn.Blocks {
			for _, in := range b.Instrs {
				var callVal ssa.Value
				if c, ok := in.(ssa.CallInstruction); ok {
					callVal = c.Common().Value
				}
				for _, op := range in.Operands(nil) {
					if op == nil || *op == nil {
						continue
					}
					if f, ok := (*op).(*ssa.Function); ok && *op != callVal {
						out[f] = true
					}
				}
				if mc, ok := in.(*ssa.MakeClosure); ok {
					out[mc.Fn.(*ssa.Function)] = true
				}
			}
		}
	}
	return out
}

// keepsCheck returns "" when calls to callee keep the fields of struct type name, else the reason they may not.
func (p *Program) keepsCheck(callee *ssa.Function, name string) string {
	key := callee.String() + "|" + name
	keepsMu.Lock()
	if r, ok := keepsCache[key]; ok {
		keepsMu.Unlock()
		return r
	}
	keepsMu.Unlock()
	res := p.keepsCheckUncached(callee, name)
	keepsMu.Lock()
	keepsCache[key] = res
	keepsMu.Unlock()
	return res
}

func fieldNameOf(fa *ssa.FieldAddr) string {
	stt, ok := fa.X.Type().Underlying().(*types.Pointer).Elem().Underlying().(*types.Struct)
	if !ok {
		return ""
	}
	return stt.Field(fa.Field).Name()
}

// topFieldOfT: for an address inside a T object, the name of T's own field it lies in.
func topFieldOfT(v ssa.Value, name string) string {
	for {
		fa, ok := v.(*ssa.FieldAddr)
		if !ok {
			return ""
		}
		if namedStructPtr(fa.X.Type(), name) {
			return fieldNameOf(fa)
		}
		v = fa.X
	}
}

// keepsMapCheck: no function reachable from callee updates or deletes from a map of the named type.
func (p *Program) keepsMapCheck(callee *ssa.Function, tname string) string {
	taken := p.addressTaken()
	seen := map[*ssa.Function]bool{}
	work := []*ssa.Function{callee}
	isT := func(t types.Type) bool {
		n, ok := t.(*types.Named)
		return ok && n.Obj().Name() == tname
	}
	for len(work) > 0 {
		fn := work[len(work)-1]
		work = work[:len(work)-1]
		if seen[fn] || fn == nil {
			continue
		}
		seen[fn] = true
		if !p.inScope(fn) {
			continue
		}
		for _, b := range fn.Blocks {
			for _, in := range b.Instrs {
				if mu, ok := in.(*ssa.MapUpdate); ok && isT(mu.Map.Type()) {
					return fmt.Sprintf("%s updates a %s (%s)", fn.String(), tname, p.posStr(mu.Pos()))
				}
				if mc, ok := in.(*ssa.MakeClosure); ok {
					work = append(work, mc.Fn.(*ssa.Function))
				}
				for _, op := range in.Operands(nil) {
					if op != nil && *op != nil {
						if f, ok := (*op).(*ssa.Function); ok {
							work = append(work, f)
						}
					}
				}
				if c, ok := in.(ssa.CallInstruction); ok {
					cc := c.Common()
					if bi, isB := cc.Value.(*ssa.Builtin); isB {
						if bi.Name() == "delete" && isT(cc.Args[0].Type()) {
							return fmt.Sprintf("%s deletes from a %s (%s)", fn.String(), tname, p.posStr(in.Pos()))
						}
						continue
					}
					if cc.StaticCallee() == nil {
						work = append(work, p.dynTargets(cc, taken)...)
					}
				}
			}
		}
	}
	return ""
}

// keepsElemsCheck: no function reachable from callee writes an element of a slice/array whose element type is
// the named type (store through an index address, append, copy).
func (p *Program) keepsElemsCheck(callee *ssa.Function, tname string) string {
	taken := p.addressTaken()
	seen := map[*ssa.Function]bool{}
	work := []*ssa.Function{callee}
	isT := func(t types.Type) bool {
		if t == nil {
			return false
		}
		if tname == "byte" {
			b, ok := t.Underlying().(*types.Basic)
			return ok && b.Kind() == types.Uint8
		}
		if tname == "int" {
			// any integer element other than a byte (local arrays such as [14]int, []int)
			b, ok := t.Underlying().(*types.Basic)
			return ok && b.Info()&types.IsInteger != 0 && b.Kind() != types.Uint8
		}
		if pt, ok := t.(*types.Pointer); ok && strings.HasPrefix(tname, "*") {
			n, ok := pt.Elem().(*types.Named)
			return ok && n.Obj().Name() == tname[1:]
		}
		n, ok := t.(*types.Named)
		return ok && n.Obj().Name() == tname
	}
	for len(work) > 0 {
		fn := work[len(work)-1]
		work = work[:len(work)-1]
		if seen[fn] || fn == nil {
			continue
		}
		seen[fn] = true
		if !p.inScope(fn) {
			continue
		}
		for _, b := range fn.Blocks {
			for _, in := range b.Instrs {
				if st, ok := in.(*ssa.Store); ok {
					v := st.Addr
					for {
						if fa, ok := v.(*ssa.FieldAddr); ok {
							v = fa.X
							continue
						}
						break
					}
					if ia, ok := v.(*ssa.IndexAddr); ok && isT(elemTypeOf(ia.X.Type())) {
						return fmt.Sprintf("%s stores into an element of a []%s (%s)", fn.String(), tname, p.posStr(st.Pos()))
					}
				}
				if mc, ok := in.(*ssa.MakeClosure); ok {
					work = append(work, mc.Fn.(*ssa.Function))
				}
				for _, op := range in.Operands(nil) {
					if op != nil && *op != nil {
						if f, ok := (*op).(*ssa.Function); ok {
							work = append(work, f)
						}
					}
				}
				if c, ok := in.(ssa.CallInstruction); ok {
					cc := c.Common()
					if bi, isB := cc.Value.(*ssa.Builtin); isB {
						if (bi.Name() == "append" || bi.Name() == "copy") && isT(elemTypeOf(cc.Args[0].Type())) {
							return fmt.Sprintf("%s appends/copies into a []%s (%s)", fn.String(), tname, p.posStr(in.Pos()))
						}
						continue
					}
					if tname == "byte" {
						// dependencies that write into a byte slice they are handed
						wr := ""
						if cc.IsInvoke() {
							if normMethodName(cc.Method.FullName()) == "(io.Reader).Read" {
								wr = "(io.Reader).Read"
							}
						} else if sc := cc.StaticCallee(); sc != nil && !p.inScope(sc) {
							n := fullName(sc)
							if n == "unicode/utf8.EncodeRune" || n == "unicode/utf8.AppendRune" || strings.HasPrefix(n, "strconv.Append") || n == "io.ReadFull" || n == "io.ReadAtLeast" {
								wr = n
							}
						}
						if wr != "" {
							return fmt.Sprintf("%s calls %s, which writes a byte slice (%s)", fn.String(), wr, p.posStr(in.Pos()))
						}
					}
					if cc.StaticCallee() == nil {
						work = append(work, p.dynTargets(cc, taken)...)
					}
				}
			}
		}
	}
	return ""
}

func (p *Program) keepsCheckUncached(callee *ssa.Function, spec string) string {
	if strings.HasPrefix(spec, "map:") {
		return p.keepsMapCheck(callee, strings.TrimPrefix(spec, "map:"))
	}
	if strings.HasPrefix(spec, "elems:") {
		return p.keepsElemsCheck(callee, strings.TrimPrefix(spec, "elems:"))
	}
	name, field := spec, ""
	if i := strings.Index(spec, "."); i >= 0 {
		name, field = spec[:i], spec[i+1:]
	}
	relevant := func(addr ssa.Value) bool {
		return field == "" || topFieldOfT(addr, name) == field
	}
	// (1) no field address of T escapes anywhere
	for _, fn := range p.allFuncsIncludingSynthetic() {
		if !p.inScope(fn) {
			continue
		}
		for _, b := range fn.Blocks {
			for _, in := range b.Instrs {
				fa, ok := in.(*ssa.FieldAddr)
				if !ok {
					continue
				}
				if is, _ := fieldOfT(fa, name); !is || !relevant(fa) {
					continue
				}
				for _, r := range *fa.Referrers() {
					switch u := r.(type) {
					case *ssa.UnOp:
						if u.Op == token.MUL {
							continue
						}
					case *ssa.Store:
						if u.Addr == fa && u.Val != fa {
							continue
						}
					case *ssa.FieldAddr, *ssa.DebugRef:
						continue
					}
					return fmt.Sprintf("the address of a field of %s escapes in %s (%s)", name, fn.String(), p.posStr(fa.Pos()))
				}
			}
		}
	}
	// (2) reachable functions do not store into a T
	taken := p.addressTaken()
	seen := map[*ssa.Function]bool{}
	work := []*ssa.Function{callee}
	for len(work) > 0 {
		fn := work[len(work)-1]
		work = work[:len(work)-1]
		if seen[fn] || fn == nil {
			continue
		}
		seen[fn] = true
		if !p.inScope(fn) {
			continue
		}
		for _, b := range fn.Blocks {
			for _, in := range b.Instrs {
				if st, ok := in.(*ssa.Store); ok {
					if is, base := fieldOfT(st.Addr, name); is && relevant(st.Addr) {
						if _, fresh := base.(*ssa.Alloc); !fresh {
							return fmt.Sprintf("%s stores into a field of %s (%s)", fn.String(), name, p.posStr(st.Pos()))
						}
					}
					if namedStructPtr(st.Addr.Type(), name) {
						if _, fresh := st.Addr.(*ssa.Alloc); !fresh {
							return fmt.Sprintf("%s stores a whole %s (%s)", fn.String(), name, p.posStr(st.Pos()))
						}
					}
				}
				if mc, ok := in.(*ssa.MakeClosure); ok {
					work = append(work, mc.Fn.(*ssa.Function))
				}
				for _, op := range in.Operands(nil) {
					if op != nil && *op != nil {
						if f, ok := (*op).(*ssa.Function); ok {
							work = append(work, f)
						}
					}
				}
				if c, ok := in.(ssa.CallInstruction); ok {
					cc := c.Common()
					if _, isB := cc.Value.(*ssa.Builtin); isB {
						continue
					}
					if cc.StaticCallee() == nil {
						work = append(work, p.dynTargets(cc, taken)...)
					}
				}
			}
		}
	}
	return ""
}

// dynTargets: the in-scope functions a call through a function value or an interface method may reach:
// address-taken functions and closures of identical signature; methods of that name and signature.
func (p *Program) dynTargets(cc *ssa.CallCommon, taken map[*ssa.Function]bool) []*ssa.Function {
	var out []*ssa.Function
	if cc.IsInvoke() {
		want := cc.Method.Type().(*types.Signature)
		for _, fn := range p.allFuncsIncludingSynthetic() {
			if fn.Signature.Recv() == nil || fn.Name() != cc.Method.Name() || !p.inScope(fn) {
				continue
			}
			if sameParams(fn.Signature, want) {
				out = append(out, fn)
			}
		}
		return out
	}
	sig, ok := cc.Value.Type().Underlying().(*types.Signature)
	if !ok {
		for f := range taken {
			out = append(out, f)
		}
		return out
	}
	for f := range taken {
		if sameParams(f.Signature, sig) {
			out = append(out, f)
		}
	}
	return out
}

func sameParams(a, b *types.Signature) bool {
	if a.Params().Len() != b.Params().Len() || a.Results().Len() != b.Results().Len() {
		return false
	}
	for i := 0; i < a.Params().Len(); i++ {
		if !types.Identical(a.Params().At(i).Type(), b.Params().At(i).Type()) {
			return false
		}
	}
	for i := 0; i < a.Results().Len(); i++ {
		if !types.Identical(a.Results().At(i).Type(), b.Results().At(i).Type()) {
			return false
		}
	}
	return true
}
