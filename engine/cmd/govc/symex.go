package main

// Symbolic execution of go/ssa (naive form) with cut points at loop heads.
// Every path starts at the function entry; at the first arrival at a loop head
// the invariant is asserted, everything the loop may modify is havocked, the
// invariant is assumed; at the second arrival (back edge) the invariant and the
// variant are asserted and the path ends.

import (
	"context"
	"crypto/sha256"
	"fmt"
	"go/token"
	"go/types"
	"sort"
	"strings"
	"sync"
	"time"

	"golang.org/x/tools/go/ssa"
)

type loopInfo struct {
	head     *ssa.BasicBlock
	blocks   map[*ssa.BasicBlock]bool
	ordinal  int
	spec     *LoopSpec
	isRange  bool
	rangeIdx *ssa.Alloc // hidden rangeindex cell
	rangeLen ssa.Value  // length register
	keyVar   *ssa.Alloc // user-visible key variable, if any
	modCells map[*ssa.Alloc][][]int
	modHeap  map[string]bool
	modAll   bool
	allocs   bool
	line     int
	keeps    []string   // struct types whose fields survive the havoc (havoccall ... keeps T)
	modAllOK bool       // modAll comes from a havoccall abstraction: havoc the whole heap at the head
	strIter  *ssa.Range // string range loop: the iterator advanced at the head
	strKey   *ssa.Alloc
}

func (x *Exec) assert(st *State, class string, goal *Term, desc string, pos token.Pos) {
	if goal.IsTrue() {
		return
	}
	name := x.name + "/" + class
	o := &Obligation{Name: name, Assumes: append([]*Term(nil), st.assumes...), Goal: goal, Desc: desc, PathID: x.paths}
	if pos.IsValid() {
		p := x.prog.fset.Position(pos)
		o.Pos = fmt.Sprintf("%s:%d", shortFile(p.Filename), p.Line)
	}
	x.obls = append(x.obls, o)
	// later assertions on the path may rely on this one
	st.assume(goal)
}

func shortFile(f string) string {
	if i := strings.LastIndex(f, "/"); i >= 0 {
		return f[i+1:]
	}
	return f
}

func (x *Exec) safetyOn(class string) bool {
	if x.fc != nil {
		if _, off := x.fc.SafetyOff[class]; off {
			return false
		}
	}
	return true
}

func (x *Exec) safe(st *State, class string, goal *Term, desc string, pos token.Pos) {
	if !x.safetyOn(class) {
		st.assume(goal)
		return
	}
	x.assert(st, "safe:"+class, goal, desc, pos)
}

// ---- entry ----

func (x *Exec) verifyFunction() {
	defer func() {
		if r := recover(); r != nil {
			switch e := r.(type) {
			case unsupported:
				x.err = fmt.Errorf("outside subset: %s", e.msg)
			case cevalErr:
				x.err = fmt.Errorf("contract error: %s", e.msg)
			default:
				// e.g. a contract whose names now denote values of another shape: the function is undecided, the
				// other functions of the run are still checked
				x.err = fmt.Errorf("contract error: cannot evaluate the contract on this body (%v)", r)
			}
		}
	}()
	fn := x.fn
	if len(fn.Blocks) == 0 {
		x.fail("no body")
	}
	x.analyzeEscapes()
	x.registerFuncTypes()
	x.analyzeLoops()
	st := &State{heap: HeapView{}, entry: HeapView{}}
	st.wm = Var("WM0", SInt)
	st.entryWM = st.wm
	st.assume(Lt(IntC(0), st.wm))
	fr := &Frame{fn: fn, regs: map[ssa.Value]SV{}, cells: map[*ssa.Alloc]SV{}, loopSeen: map[*ssa.BasicBlock]*loopVisit{}, block: fn.Blocks[0]}
	st.frames = []*Frame{fr}
	x.params = map[string]SV{}
	for _, p := range fn.Params {
		v := x.freshOf(st, p.Type(), p.Name())
		fr.regs[p] = v
		fr.params = append(fr.params, v)
		x.params[p.Name()] = v
	}
	for i, fv := range fn.FreeVars {
		v := x.freshOf(st, fv.Type(), "free."+fv.Name())
		fr.regs[fv] = v
		_ = i
	}
	// preconditions
	if x.fc != nil {
		env := x.contractEnv(st, nil, nil)
		for _, r := range x.fc.Requires {
			st.assume(env.evalBool(r.Expr))
		}
		x.addCover(st, "requires")
		if len(x.fc.GhostDecls) > 0 {
			st.ghost = map[string]SV{}
			for _, g := range x.fc.GhostDecls {
				env := x.contractEnv(st, nil, nil)
				if g.Array {
					iv := env.evalInt(g.Init)
					if !iv.IsInt() || iv.Int.Sign() != 0 {
						x.fail("ghost array %s: only the initial value 0 is supported", g.Name)
					}
					st.ghost[g.Name] = SV{K: KSeq, Arr: App("zeroarr", SArrI), Off: IntC(0), Len: MaxLenTerm, Cap: MaxLenTerm}
					continue
				}
				st.ghost[g.Name] = intSV(env.evalInt(g.Init), types.Typ[types.Int])
			}
		}
	}
	x.run(st)
}

func (x *Exec) contractEnv(st *State, results []SV, old HeapView) *CEnv {
	env := &CEnv{x: x, vars: map[string]SV{}, cur: st.heap, old: old, qn: &x.qn, wmOld: st.entryWM, wmCur: st.wm, st: st}
	for k, v := range x.params {
		env.vars[k] = v
	}
	env.entryVars = x.params
	for k, v := range st.ghost {
		env.vars[k] = v
	}
	if results != nil {
		sig := x.fn.Signature
		for i := 0; i < sig.Results().Len(); i++ {
			n := sig.Results().At(i).Name()
			if n != "" && n != "_" {
				env.vars[n] = results[i]
			}
			env.vars[fmt.Sprintf("result%d", i)] = results[i]
		}
		if len(results) == 1 {
			env.vars["result"] = results[0]
		}
	}
	return env
}

func (x *Exec) addCover(st *State, what string) {
	x.covers = append(x.covers, &Obligation{Name: x.name + "/cover:" + what, Assumes: append([]*Term(nil), st.assumes...)})
}

// registerFuncTypes makes the heap keys of every type the function touches known
// (function-local named types are not in the package scope).
func (x *Exec) registerFuncTypes() {
	keyMu.Lock()
	defer keyMu.Unlock()
	seen := map[types.Type]bool{}
	for _, b := range x.fn.Blocks {
		for _, in := range b.Instrs {
			if v, ok := in.(ssa.Value); ok && v.Type() != nil {
				func() {
					defer func() { recover() }()
					x.prog.registerFieldType(v.Type(), seen)
				}()
			}
		}
	}
}

var keyMu sync.Mutex

// ---- escape analysis for local Allocs ----

func (x *Exec) analyzeEscapes() {
	x.escaping = map[*ssa.Alloc]bool{}
	var fns []*ssa.Function
	fns = append(fns, x.fn)
	for _, f := range fns {
		for _, b := range f.Blocks {
			for _, in := range b.Instrs {
				if a, ok := in.(*ssa.Alloc); ok {
					if a.Heap || addrEscapes(a, map[ssa.Value]bool{}) {
						x.escaping[a] = true
					}
				}
			}
		}
	}
}

func allocEscapes(a *ssa.Alloc) bool {
	return a.Heap || addrEscapes(a, map[ssa.Value]bool{})
}

func addrEscapes(v ssa.Value, seen map[ssa.Value]bool) bool {
	if seen[v] {
		return false
	}
	seen[v] = true
	refs := v.Referrers()
	if refs == nil {
		return true
	}
	for _, r := range *refs {
		switch u := r.(type) {
		case *ssa.Store:
			if u.Val == v {
				return true
			}
		case *ssa.UnOp:
			if u.Op != token.MUL {
				return true
			}
		case *ssa.FieldAddr:
			if addrEscapes(u, seen) {
				return true
			}
		case *ssa.IndexAddr:
			return true // arrays are modelled as heap backing stores
		case *ssa.DebugRef:
		default:
			return true
		}
	}
	return false
}

// ---- loops ----

func (x *Exec) analyzeLoops() {
	fn := x.fn
	x.loops = map[*ssa.BasicBlock]*loopInfo{}
	// back edges: b -> h where h dominates b
	for _, b := range fn.Blocks {
		for _, s := range b.Succs {
			if s.Dominates(b) {
				li := x.loops[s]
				if li == nil {
					li = &loopInfo{head: s, blocks: map[*ssa.BasicBlock]bool{s: true}, modCells: map[*ssa.Alloc][][]int{}, modHeap: map[string]bool{}}
					x.loops[s] = li
				}
				// natural loop of back edge b->s
				stack := []*ssa.BasicBlock{b}
				for len(stack) > 0 {
					n := stack[len(stack)-1]
					stack = stack[:len(stack)-1]
					if li.blocks[n] {
						continue
					}
					li.blocks[n] = true
					stack = append(stack, n.Preds...)
				}
			}
		}
	}
	var heads []*ssa.BasicBlock
	for h := range x.loops {
		heads = append(heads, h)
	}
	// ordinal: source order of the loop statement = position order of heads
	sort.Slice(heads, func(i, j int) bool { return x.loopPos(heads[i]) < x.loopPos(heads[j]) })
	for i, h := range heads {
		li := x.loops[h]
		li.ordinal = i
		li.line = x.prog.fset.Position(x.loopPos(h)).Line
		if x.fc != nil {
			li.spec = x.fc.Loops[i]
		}
		x.detectRange(li)
		x.computeModset(li)
	}
	if x.fc != nil {
		for ord := range x.fc.Loops {
			if ord >= len(heads) {
				x.fail("contract names loop %d but the function has %d loops", ord, len(heads))
			}
		}
	}
}

// loopPos: smallest valid source position among the instructions of the loop.
func (x *Exec) loopPos(h *ssa.BasicBlock) token.Pos {
	li := x.loops[h]
	best := token.Pos(0)
	for b := range li.blocks {
		for _, in := range b.Instrs {
			p := in.Pos()
			if d, ok := in.(*ssa.DebugRef); ok {
				p = d.Expr.Pos()
			}
			if p.IsValid() && (best == 0 || p < best) {
				best = p
			}
		}
	}
	return best
}

func (x *Exec) detectRange(li *loopInfo) {
	h := li.head
	if !strings.HasPrefix(h.Comment, "rangeindex.loop") {
		return
	}
	// pattern: t = *idx; t2 = t + 1; *idx = t2; c = t2 < len; if c ...
	for _, in := range h.Instrs {
		if st, ok := in.(*ssa.Store); ok {
			if a, ok := st.Addr.(*ssa.Alloc); ok && a.Comment == "rangeindex" {
				li.rangeIdx = a
			}
		}
		if bo, ok := in.(*ssa.BinOp); ok && bo.Op == token.LSS {
			li.rangeLen = bo.Y
		}
	}
	if li.rangeIdx == nil || li.rangeLen == nil {
		return
	}
	li.isRange = true
	// key variable: store of a load of rangeindex into another alloc in the body block
	for b := range li.blocks {
		if !strings.HasPrefix(b.Comment, "rangeindex.body") {
			continue
		}
		for _, in := range b.Instrs {
			if st, ok := in.(*ssa.Store); ok {
				if ld, ok := st.Val.(*ssa.UnOp); ok && ld.Op == token.MUL && ld.X == li.rangeIdx {
					if a, ok := st.Addr.(*ssa.Alloc); ok {
						li.keyVar = a
					}
				}
			}
		}
	}
}

// rootOfAddr traces an address to a local alloc (with field path) or reports a heap key set.
func (x *Exec) addrRoot(v ssa.Value) (alloc *ssa.Alloc, path []int, heapKeys []string, unknown bool) {
	switch a := v.(type) {
	case *ssa.Alloc:
		if !x.escaping[a] {
			return a, nil, nil, false
		}
		et := a.Type().(*types.Pointer).Elem()
		return nil, nil, x.keysOfObject(et, nil), false
	case *ssa.FieldAddr:
		al, p, hk, unk := x.addrRoot(a.X)
		if unk {
			return nil, nil, nil, true
		}
		if al != nil {
			return al, append(append([]int{}, p...), a.Field), nil, false
		}
		// heap object: narrow the keys by the whole chain of field selections, starting at the object that
		// owns the storage (p.span.End lives under F:Inline.span.End, s[i].f under E:T.f - naming the keys
		// after the innermost struct type left such stores out of the loop's modified set)
		_ = hk
		var path []int
		var cur ssa.Value = a
		for {
			fa, ok := cur.(*ssa.FieldAddr)
			if !ok {
				break
			}
			path = append([]int{fa.Field}, path...)
			cur = fa.X
		}
		if ia, ok := cur.(*ssa.IndexAddr); ok {
			et := elemTypeOf(ia.X.Type())
			if et == nil || typeKind(et) != KStruct {
				return nil, nil, nil, true
			}
			var keys []string
			base := elemKeyBase(et) + pathSuffix(et, path)
			for _, lf := range leavesOf(typeAt(et, path)) {
				keys = append(keys, base+lf.suffix)
			}
			return nil, nil, keys, false
		}
		pt := cur.Type().Underlying().(*types.Pointer).Elem()
		return nil, nil, x.keysOfObject(pt, path), false
	case *ssa.IndexAddr:
		et := elemTypeOf(a.X.Type())
		if et == nil {
			return nil, nil, nil, true
		}
		var keys []string
		base := elemKeyBase(et)
		for _, lf := range leavesOf(et) {
			keys = append(keys, base+lf.suffix)
		}
		return nil, nil, keys, false
	default:
		// pointer value from elsewhere (parameter, load, call result)
		if pt, ok := v.Type().Underlying().(*types.Pointer); ok {
			return nil, nil, x.keysOfObject(pt.Elem(), nil), false
		}
	}
	return nil, nil, nil, true
}

func (x *Exec) keysOfObject(t types.Type, path []int) []string {
	if _, isArr := t.Underlying().(*types.Array); isArr {
		et := t.Underlying().(*types.Array).Elem()
		var keys []string
		for _, lf := range leavesOf(et) {
			keys = append(keys, elemKeyBase(et)+lf.suffix)
		}
		return keys
	}
	var keys []string
	if typeKind(t) != KStruct {
		for _, lf := range leavesOf(t) {
			keys = append(keys, "P:"+typeName(t)+lf.suffix)
		}
		return keys
	}
	vt := typeAt(t, path)
	base := "F:" + typeName(t) + pathSuffix(t, path)
	for _, lf := range leavesOf(vt) {
		keys = append(keys, base+lf.suffix)
	}
	return keys
}

func (x *Exec) computeModset(li *loopInfo) {
	for b := range li.blocks {
		for _, in := range b.Instrs {
			x.instrMods(in, li, map[*ssa.Function]bool{})
		}
	}
}

func (x *Exec) instrMods(in ssa.Instruction, li *loopInfo, seen map[*ssa.Function]bool) {
	switch i := in.(type) {
	case *ssa.Store:
		al, p, hk, unk := x.addrRoot(i.Addr)
		switch {
		case unk:
			li.modAll = true
		case al != nil:
			if al.Parent() == x.fn {
				dup := false
				for _, q := range li.modCells[al] {
					if len(q) == len(p) {
						same := true
						for k := range q {
							if q[k] != p[k] {
								same = false
							}
						}
						if same {
							dup = true
						}
					}
				}
				if !dup {
					li.modCells[al] = append(li.modCells[al], p)
				}
			}
		default:
			for _, k := range hk {
				li.modHeap[k] = true
			}
		}
	case *ssa.Alloc:
		if x.escaping[i] || i.Parent() != x.fn {
			li.allocs = true
			// a fresh object's fields are initialised: that is a write to those heap keys
			et := i.Type().(*types.Pointer).Elem()
			for _, k := range x.keysOfObject(et, nil) {
				li.modHeap[k] = true
			}
		} else if i.Parent() == x.fn {
			li.modCells[i] = append(li.modCells[i], nil)
		}
	case *ssa.MakeSlice:
		li.allocs = true
		et := elemTypeOf(i.Type())
		for _, lf := range leavesOf(et) {
			li.modHeap[elemKeyBase(et)+lf.suffix] = true
		}
	case *ssa.Next:
		if rng, ok := i.Iter.(*ssa.Range); ok && i.IsString {
			li.strIter = rng
		}
	case *ssa.MakeMap:
		li.allocs = true
		for _, k := range mapHeapKeys(i.Type()) {
			li.modHeap[k] = true
		}
	case *ssa.MakeClosure, *ssa.MakeChan:
		li.allocs = true
	case *ssa.MakeInterface:
	case *ssa.MapUpdate:
		for _, k := range mapHeapKeys(i.Map.Type()) {
			li.modHeap[k] = true
		}
	case *ssa.Convert:
		if typeKind(i.Type()) == KSeq && typeKind(i.X.Type()) == KSeq {
			li.allocs = true
			li.modHeap["E:byte"] = true
		}
	case ssa.CallInstruction:
		x.callMods(i.Common(), li, seen)
	}
}

func (x *Exec) callMods(c *ssa.CallCommon, li *loopInfo, seen map[*ssa.Function]bool) {
	if b, ok := c.Value.(*ssa.Builtin); ok {
		switch b.Name() {
		case "append":
			li.allocs = true
			et := elemTypeOf(c.Args[0].Type())
			for _, lf := range leavesOf(et) {
				li.modHeap[elemKeyBase(et)+lf.suffix] = true
			}
		case "copy":
			et := elemTypeOf(c.Args[0].Type())
			for _, lf := range leavesOf(et) {
				li.modHeap[elemKeyBase(et)+lf.suffix] = true
			}
		case "delete":
			for _, k := range mapHeapKeys(c.Args[0].Type()) {
				li.modHeap[k] = true
			}
		}
		return
	}
	if c.IsInvoke() {
		switch normMethodName(c.Method.FullName()) {
		case "(io.Reader).Read":
			li.modHeap["E:byte"] = true
			return
		case "(io.Writer).Write", "(io.StringWriter).WriteString", "(zombiezen.com/go/commonmark.ReferenceMatcher).MatchReference", "(error).Error":
			return
		}
		li.modAll = true
		return
	}
	callee := c.StaticCallee()
	if callee == nil {
		if mc, ok := c.Value.(*ssa.MakeClosure); ok {
			callee = mc.Fn.(*ssa.Function)
		}
	}
	if callee == nil || (c.StaticCallee() == nil && x.prog.contracts.Callbacks[sigString(c.Value.Type())] != "") {
		if !c.IsInvoke() && x.prog.contracts.Callbacks[sigString(c.Value.Type())] != "" {
			return // callback contract: no writes to library-owned memory
		}
		// dynamic call: governed by callback contracts; conservatively everything
		if ext := x.prog.dynamicCallMods(c); ext != nil {
			for _, k := range ext {
				li.modHeap[k] = true
			}
			return
		}
		li.modAll = true
		return
	}
	if x.havocHere(callee) {
		keeps := x.havocKeeps(callee)
		if !li.modAll {
			li.keeps = keeps
		} else {
			// several abstracted calls: keep only what all of them keep
			var both []string
			for _, a := range li.keeps {
				for _, b := range keeps {
					if a == b {
						both = append(both, a)
					}
				}
			}
			li.keeps = both
		}
		li.modAll = true
		li.modAllOK = true
		li.allocs = true
		return
	}
	if fc := x.prog.contractFor(callee); fc != nil && !fc.Inline && (!fc.InlineAtCalls || x.contractHere(fc)) && !x.inlineHere(fc) {
		if modifiesEverything(fc) {
			li.modAll = true
			li.modAllOK = true
			li.allocs = true
			li.keeps = nil
			return
		}
		keys, allocs, all := x.prog.modifiesKeys(x, callee, fc)
		for _, k := range keys {
			li.modHeap[k] = true
		}
		// pointer arguments that are addresses of fields or locals: the callee's license on *param is a license on that cell
		for _, a := range c.Args {
			switch a.(type) {
			case *ssa.FieldAddr, *ssa.Alloc:
				if len(fc.Modifies) == 0 {
					continue
				}
				al, p, hk, unk := x.addrRoot(a)
				switch {
				case unk:
					li.modAll = true
				case al != nil:
					if al.Parent() == x.fn {
						li.modCells[al] = append(li.modCells[al], p)
					}
				default:
					for _, k := range hk {
						li.modHeap[k] = true
					}
				}
			}
		}
		if allocs {
			li.allocs = true
		}
		if all {
			li.modAll = true
		}
		return
	}
	if callee.Pkg == nil || !x.prog.inScope(callee) || len(callee.Blocks) == 0 {
		mods, allocs, known := externMods(callee)
		if !known {
			li.modAll = true
			return
		}
		for _, k := range mods {
			li.modHeap[k] = true
		}
		if allocs {
			li.allocs = true
		}
		return
	}
	if seen[callee] {
		return
	}
	seen[callee] = true
	// inlined callee: its own instructions
	sub := &Exec{prog: x.prog, fn: callee}
	sub.analyzeEscapes()
	for _, b := range callee.Blocks {
		for _, in := range b.Instrs {
			// stores to the callee's own non-escaping locals are irrelevant
			if st, ok := in.(*ssa.Store); ok {
				al, _, hk, unk := sub.addrRoot(st.Addr)
				if unk {
					li.modAll = true
				} else if al == nil {
					for _, k := range hk {
						li.modHeap[k] = true
					}
				}
				continue
			}
			if a, ok := in.(*ssa.Alloc); ok {
				if sub.escaping[a] {
					li.allocs = true
					for _, k := range x.keysOfObject(a.Type().(*types.Pointer).Elem(), nil) {
						li.modHeap[k] = true
					}
				}
				continue
			}
			x.instrMods(in, li, seen)
		}
	}
}

// atLoopHead implements the cut point. It returns false if the path ends here.
func (x *Exec) atLoopHead(st *State, li *loopInfo) bool {
	fr := st.top()
	if len(st.frames) != 1 {
		x.fail("loop inside an inlined callee %s (give it a contract)", fr.fn.Name())
	}
	invs, dec := x.loopClauses(li)
	ord := li.ordinal
	if vis := fr.loopSeen[li.head]; vis != nil {
		// back edge
		env := x.loopEnv(st, li)
		x.assumeLoopUses(st, li, env)
		for _, c := range invs {
			x.assert(st, fmt.Sprintf("inv-step:%d:%s", ord, c.Label), env.evalBool(c.Expr), c.Text, token.NoPos)
		}
		if li.spec != nil && len(li.spec.Steps) > 0 && vis.snap != nil {
			env.prev = x.loopEnv(vis.snap, li)
			env.prev.st = nil
			for _, c := range li.spec.Steps {
				x.assert(st, fmt.Sprintf("step:%d:%s", ord, c.Label), env.evalBool(c.Expr), c.Text, token.NoPos)
			}
		}
		if dec != nil {
			m := env.evalInt(dec.Expr)
			x.assert(st, fmt.Sprintf("dec:%d", ord), And(Le(IntC(0), vis.measure), Lt(m, vis.measure)), "decreases "+dec.Text, token.NoPos)
		} else if li.isRange || li.strIter != nil {
			// automatic variant of a range loop: the hidden index increases towards the fixed length
		} else {
			x.assert(st, fmt.Sprintf("dec:%d", ord), tFalse, "loop has no decreases clause", token.NoPos)
		}
		x.paths++
		return false
	}
	// first arrival.  Drop the path if its condition is already contradictory:
	// obligations on an infeasible path are vacuously true, so this only saves work.
	if x.paths+len(x.obls) > 40 && x.infeasible(st) {
		x.pruned++
		return false
	}
	env := x.loopEnv(st, li)
	x.assumeLoopUses(st, li, env)
	for _, c := range invs {
		x.assert(st, fmt.Sprintf("inv-entry:%d:%s", ord, c.Label), env.evalBool(c.Expr), c.Text, token.NoPos)
	}
	x.havocLoop(st, li)
	env = x.loopEnv(st, li)
	for _, c := range invs {
		st.assume(env.evalBool(c.Expr))
	}
	x.assumeLoopUses(st, li, env)
	vis := &loopVisit{}
	if dec != nil {
		vis.measure = env.evalInt(dec.Expr)
	}
	if li.spec != nil && len(li.spec.Steps) > 0 {
		vis.snap = st.clone()
	}
	fr.loopSeen[li.head] = vis
	x.addCover(st, fmt.Sprintf("loop%d", ord))
	return true
}

// infeasible asks old z3 (fast, short timeout) whether the path condition is unsatisfiable.
func (x *Exec) infeasible(st *State) bool {
	q := &Query{Name: "feas", Assumes: st.assumes, Goal: BoolC(false)}
	text := q.smtlib(false, "z3")
	h := sha256.Sum256([]byte("feas" + text))
	if r, ok := vcCache.Load(string(h[:])); ok {
		return r.(Result).Status == "unsat"
	}
	r := runSolver(context.Background(), "z3", q, false, time.Second)
	vcCache.Store(string(h[:]), r)
	return r.Status == "unsat"
}

func (x *Exec) assumeLoopUses(st *State, li *loopInfo, env *CEnv) {
	if li.spec == nil {
		return
	}
	for _, u := range li.spec.Uses {
		st.assume(env.evalBool(u))
	}
}

// loopClauses returns user invariants plus the automatic ones of range loops.
func (x *Exec) loopClauses(li *loopInfo) ([]Clause, *Clause) {
	var invs []Clause
	var dec *Clause
	if li.spec != nil {
		invs = append(invs, li.spec.Invariants...)
		dec = li.spec.Decreases
	}
	return invs, dec
}

// loopEnv binds the source variables visible at the loop head.
func (x *Exec) loopEnv(st *State, li *loopInfo) *CEnv {
	env := x.contractEnv(st, nil, st.entry)
	fr := st.top()
	// the innermost enclosing loop with a snapshot: outer(e)
	var encl *loopInfo
	for _, l := range x.loops {
		if l != li && l.blocks[li.head] && (encl == nil || len(l.blocks) < len(encl.blocks)) {
			encl = l
		}
	}
	if encl != nil {
		if vis := fr.loopSeen[encl.head]; vis != nil && vis.snap != nil && vis.snap != st {
			env.outer = x.loopEnv(vis.snap, encl)
			env.outer.st = nil
		}
	}
	// all local cells by source name; innermost/latest declaration wins unless ambiguous
	x.bindLocals(env, fr, li)
	if li.isRange {
		idx := fr.cells[li.rangeIdx]
		next := Add(idx.T, IntC(1))
		env.vars["_i"] = intSV(next, types.Typ[types.Int])
		if li.keyVar != nil {
			env.vars[li.keyVar.Comment] = intSV(next, types.Typ[types.Int])
		}
	}
	if li.strIter != nil && fr.iters != nil && fr.iters[li.strIter] != nil {
		env.vars["_i"] = intSV(fr.iters[li.strIter], types.Typ[types.Int])
	}
	return env
}

// contractIdents: every identifier that occurs in the function's contract.
func (x *Exec) contractIdents() map[string]bool {
	if x.fcIdents != nil {
		return x.fcIdents
	}
	ids := map[string]bool{}
	var walk func(e *CExpr)
	walk = func(e *CExpr) {
		if e == nil {
			return
		}
		if e.Kind == "id" {
			ids[e.Str] = true
		}
		for _, c := range []*CExpr{e.X, e.Y, e.Z, e.Lo, e.Hi, e.Body} {
			walk(c)
		}
		for _, a := range e.Args {
			walk(a)
		}
	}
	fc := x.fc
	for _, c := range fc.Requires {
		walk(c.Expr)
	}
	for _, c := range fc.Ensures {
		walk(c.Expr)
	}
	for _, u := range fc.Uses {
		walk(u)
	}
	for _, ls := range fc.Loops {
		for _, c := range ls.Invariants {
			walk(c.Expr)
		}
		for _, c := range ls.Steps {
			walk(c.Expr)
		}
		if ls.Decreases != nil {
			walk(ls.Decreases.Expr)
		}
		for _, u := range ls.Uses {
			walk(u)
		}
	}
	for _, cls := range fc.CallSites {
		for _, c := range cls {
			walk(c.Expr)
		}
	}
	for _, c := range fc.AppendSites {
		walk(c.Expr)
	}
	for _, c := range fc.MapSites {
		walk(c.Expr)
	}
	for _, cls := range fc.StoreReq {
		for _, c := range cls {
			walk(c.Expr)
		}
	}
	for _, gs := range fc.CallGhost {
		for _, g := range gs {
			walk(g.Expr)
		}
	}
	for _, us := range fc.CallUse {
		for _, u := range us {
			walk(u)
		}
	}
	// parameters and results are never rename candidates
	for _, p := range x.fn.Params {
		ids[p.Name()] = true
	}
	x.fcIdents = ids
	return ids
}

// bindLocals makes local variables available to invariants by source name.
// When several cells carry the same name (shadowing, or one name per loop),
// the cell that the loop itself reads or writes is preferred, then the one
// declared closest before the loop.
func (x *Exec) bindLocals(env *CEnv, fr *Frame, li *loopInfo) {
	byName := map[string][]*ssa.Alloc{}
	for a := range fr.cells {
		if a.Comment == "" || a.Comment == "rangeindex" || strings.Contains(a.Comment, "$") || a.Comment == "complit" || a.Comment == "varargs" {
			continue
		}
		byName[a.Comment] = append(byName[a.Comment], a)
	}
	usedInLoop := func(a *ssa.Alloc) bool {
		if li == nil {
			return false
		}
		for _, r := range *a.Referrers() {
			if r.Block() != nil && li.blocks[r.Block()] {
				return true
			}
		}
		return false
	}
	for name, as := range byName {
		if _, isParam := x.params[name]; isParam {
			// the parameter's cell holds its current value
		}
		best := as[0]
		if len(as) > 1 {
			sort.Slice(as, func(i, j int) bool { return as[i].Pos() < as[j].Pos() })
			var cands []*ssa.Alloc
			for _, a := range as {
				if usedInLoop(a) {
					cands = append(cands, a)
				}
			}
			if len(cands) == 0 {
				cands = as
			}
			best = cands[len(cands)-1]
			if li != nil {
				lp := x.loopPos(li.head)
				for _, a := range cands {
					if a.Pos() <= lp {
						best = a
					}
				}
			}
		}
		env.vars[name] = fr.cells[best]
		if env.locals == nil {
			env.locals = map[string]SV{}
		}
		env.locals[name] = fr.cells[best]
	}
	// local arrays live in the element heaps; bind them by name as sequences
	for v, sv := range fr.regs {
		if a, ok := v.(*ssa.Alloc); ok && a.Comment != "" && sv.Dyn != nil && sv.Dyn.K == KSeq {
			if _, isArr := a.Type().(*types.Pointer).Elem().Underlying().(*types.Array); isArr {
				if _, taken := env.vars[a.Comment]; !taken {
					env.vars[a.Comment] = *sv.Dyn
				}
			}
		}
	}
	// heap-allocated (escaping) named locals are not bound
}

func (li *loopInfo) hasByteAppend() bool {
	for b := range li.blocks {
		for _, in := range b.Instrs {
			if cc, ok := in.(*ssa.Call); ok {
				if bi, ok := cc.Common().Value.(*ssa.Builtin); ok && bi.Name() == "append" {
					if et := elemTypeOf(cc.Type()); et != nil && elemKeyBase(et) == "E:byte" {
						return true
					}
				}
			}
		}
	}
	return false
}

func (li *loopInfo) hasFieldStore() bool {
	for b := range li.blocks {
		for _, in := range b.Instrs {
			if s, ok := in.(*ssa.Store); ok {
				if _, ok := s.Addr.(*ssa.FieldAddr); ok {
					return true
				}
			}
		}
	}
	return false
}

func (li *loopInfo) hasAnyCall() bool {
	for b := range li.blocks {
		for _, in := range b.Instrs {
			if cc, ok := in.(*ssa.Call); ok {
				if _, isB := cc.Common().Value.(*ssa.Builtin); !isB {
					return true
				}
			}
		}
	}
	return false
}

func (li *loopInfo) hasDynCall() bool {
	for b := range li.blocks {
		for _, in := range b.Instrs {
			if cc, ok := in.(*ssa.Call); ok && cc.Common().StaticCallee() == nil {
				if _, isB := cc.Common().Value.(*ssa.Builtin); !isB {
					return true
				}
			}
		}
	}
	return false
}

func (x *Exec) havocLoop(st *State, li *loopInfo) {
	fr := st.top()
	if li.modAll && !li.modAllOK {
		x.fail("loop %d calls code with unknown effects", li.ordinal)
	}
	var allocs []*ssa.Alloc
	for a := range li.modCells {
		allocs = append(allocs, a)
	}
	sort.Slice(allocs, func(i, j int) bool { return allocs[i].Pos() < allocs[j].Pos() || allocs[i].Name() < allocs[j].Name() })
	for _, a := range allocs {
		old, ok := fr.cells[a]
		if !ok {
			continue // declared inside the loop; initialised before use
		}
		et := a.Type().(*types.Pointer).Elem()
		for _, p := range li.modCells[a] {
			t := typeAt(et, p)
			nv := x.freshOf(st, t, a.Comment+pathSuffix(et, p))
			old = setPath(old, p, nv)
		}
		fr.cells[a] = old
	}
	if st.ghost != nil && (li.hasByteAppend() || li.hasDynCall() || (x.fc != nil && len(x.fc.StoreGhost) > 0 && li.hasFieldStore()) || (x.fc != nil && len(x.fc.CallGhost) > 0 && li.hasAnyCall())) {
		var gn []string
		for k := range st.ghost {
			gn = append(gn, k)
		}
		sort.Strings(gn)
		for _, k := range gn {
			if st.ghost[k].K == KSeq {
				st.ghost[k] = SV{K: KSeq, Arr: Var(x.freshName("ghostarr."+k), SArrI), Off: IntC(0), Len: MaxLenTerm, Cap: MaxLenTerm}
				continue
			}
			st.ghost[k] = x.freshOf(st, types.Typ[types.Int], "ghost."+k)
		}
	}
	if li.strIter != nil && fr.iters != nil {
		if it, ok := fr.regs[li.strIter]; ok && it.Dyn != nil {
			pos := Var(x.freshName("strpos"), SInt)
			st.assume(And(Le(IntC(0), pos), Le(pos, it.Dyn.Len)))
			fr.iters[li.strIter] = pos
		}
	}
	if li.isRange {
		// automatic invariant of the hidden index: -1 <= idx < len
		idx := fr.cells[li.rangeIdx]
		n := x.value(st, li.rangeLen)
		st.assume(And(Le(IntC(-1), idx.T), Lt(idx.T, n.T)))
		// range loops terminate: the index strictly increases and len is fixed
	}
	var keys []string
	for k := range li.modHeap {
		keys = append(keys, k)
	}
	sort.Strings(keys)
	for _, k := range keys {
		s, ok := x.keySort[k]
		if !ok {
			s = x.sortOfKey(k)
			x.registerKey(k, s)
		}
		old := x.heapGet(st.heap, k, s)
		st.heap[k] = Var(x.freshName("H."+k), s)
		if k == "S:byte" {
			// string storage is immutable: existing strings keep their contents
			r := Var(x.freshName("r!sf"), SInt)
			st.assume(Forall([]*Term{r}, Implies(Lt(r, st.wm), Eq(Select(st.heap[k], r), Select(old, r)))))
		}
	}
	if li.allocs {
		nw := Var(x.freshName("WM"), SInt)
		st.assume(Le(st.wm, nw))
		st.wm = nw
	}
	if li.modAll && li.modAllOK {
		x.havocAll(st, li.keeps...)
	}
}

// sortOfKey derives the sort of a heap key from its shape.
func (x *Exec) sortOfKey(k string) Sort {
	keyMu.Lock()
	s, ok := x.prog.keySorts[k]
	keyMu.Unlock()
	if ok {
		return s
	}
	x.fail("unknown sort for heap key %s", k)
	return SInt
}

// ---- main interpreter loop ----

func (x *Exec) run(st *State) {
	for {
		if x.paths > x.pathCap {
			x.fail("more than %d paths", x.pathCap)
		}
		fr := st.top()
		if fr.idx >= len(fr.block.Instrs) {
			x.fail("fell off block %d of %s", fr.block.Index, fr.fn.Name())
		}
		in := fr.block.Instrs[fr.idx]
		fr.idx++
		switch i := in.(type) {
		case *ssa.DebugRef:
		case *ssa.If:
			c := x.value(st, i.Cond).T
			tb, fb := fr.block.Succs[0], fr.block.Succs[1]
			if c.IsTrue() {
				if !x.jump(st, tb) {
					return
				}
				continue
			}
			if c.IsFalse() {
				if !x.jump(st, fb) {
					return
				}
				continue
			}
			st2 := st.clone()
			st2.assume(Not(c))
			if x.jump(st2, fb) {
				x.run(st2)
			}
			st.assume(c)
			if !x.jump(st, tb) {
				return
			}
		case *ssa.Jump:
			if !x.jump(st, fr.block.Succs[0]) {
				return
			}
		case *ssa.Return:
			var results []SV
			for _, r := range i.Results {
				results = append(results, x.value(st, r))
			}
			if len(st.frames) > 1 {
				x.returnFromInline(st, results)
				continue
			}
			x.retPos = i.Pos()
			x.atReturn(st, results)
			x.paths++
			return
		case *ssa.Panic:
			if x.fc != nil && x.fc.SafetyOff["panic"] != "" {
				x.paths++
				return
			}
			x.assert(st, "safe:panic", tFalse, "panic is unreachable", i.Pos())
			x.paths++
			return
		case *ssa.RunDefers:
			if len(fr.defers) > 0 {
				d := fr.defers[len(fr.defers)-1]
				fr.defers = fr.defers[:len(fr.defers)-1]
				fr.idx-- // re-run RunDefers after the deferred call returns
				x.enterInline(st, d.Fn, d.Bind, nil, nil)
			}
		case *ssa.Defer:
			fv := x.value(st, i.Call.Value)
			if fv.K != KFunc || fv.Fn == nil || len(i.Call.Args) != 0 {
				x.fail("defer of a non-static or parameterised function")
			}
			fr.defers = append(fr.defers, fv)
		case *ssa.Store:
			if x.fc != nil && (len(x.fc.StoreSites) > 0 || len(x.fc.StoreReq) > 0 || len(x.fc.StoreGhost) > 0 || len(x.fc.StoreUse) > 0) && len(st.frames) == 1 {
				x.checkStoreSite(st, i)
			}
			l := x.addrOf(st, i.Addr, i.Pos())
			x.store(st, l, x.value(st, i.Val))
		case *ssa.MapUpdate:
			x.mapUpdate(st, i)
		case *ssa.Call:
			if !x.call(st, i) {
				return
			}
		case *ssa.Go, *ssa.Send, *ssa.Select:
			x.fail("concurrency instruction %T", in)
		case ssa.Value:
			v := x.evalInstr(st, i.(ssa.Instruction))
			fr.regs[i] = v
		default:
			x.fail("unsupported instruction %T", in)
		}
	}
}

// checkStoreSite: the append-only discipline of an output field.  A store into the field is
// accepted only if the stored value is the result of one of the listed operations applied to
// the field's current value (first operand a load of the same field).
func (x *Exec) checkStoreSite(st *State, i *ssa.Store) {
	fa, ok := i.Addr.(*ssa.FieldAddr)
	if !ok {
		return
	}
	stt, ok := fa.X.Type().Underlying().(*types.Pointer).Elem().Underlying().(*types.Struct)
	if !ok {
		return
	}
	fname := stt.Field(fa.Field).Name()
	if len(x.fc.StoreReq) > 0 || len(x.fc.StoreGhost) > 0 || len(x.fc.StoreUse) > 0 {
		n := x.storeOrdinal(i, fa)
		key := fmt.Sprintf("%s#%d", fname, n)
		if len(x.fc.StoreReq[key]) > 0 || len(x.fc.StoreGhost[key]) > 0 || len(x.fc.StoreUse[key]) > 0 {
			env := x.contractEnv(st, nil, st.entry)
			x.bindLocals(env, st.top(), nil)
			env.vars["$new"] = x.value(st, i.Val)
			for _, u := range x.fc.StoreUse[key] {
				if u.Kind != "call" || x.prog.contracts.Lemmas[u.Str] == nil {
					x.fail("site store %s: use needs a lemma application", key)
				}
				st.assume(env.evalBool(u))
			}
			for _, cl := range x.fc.StoreReq[key] {
				x.assertClause(st, fmt.Sprintf("site:store:%s:%s", key, cl.Label), env, cl.Expr, cl.Text, i.Pos())
			}
			for _, g := range x.fc.StoreGhost[key] {
				if _, ok := st.ghost[g.Name]; !ok {
					x.fail("ghost update of undeclared ghost %s", g.Name)
				}
				nv := intSV(env.evalInt(g.Expr), types.Typ[types.Int])
				st.ghost[g.Name] = nv
				env.vars[g.Name] = nv
			}
		}
	}
	allowed, ok := x.fc.StoreSites[fname]
	if !ok {
		return
	}
	isLoadOfField := func(v ssa.Value) bool {
		u, ok := v.(*ssa.UnOp)
		if !ok || u.Op != token.MUL {
			return false
		}
		f2, ok := u.X.(*ssa.FieldAddr)
		return ok && f2.Field == fa.Field && ptrRoot(f2.X) == ptrRoot(fa.X)
	}
	okStore := false
	what := "value of unknown origin"
	if c, isCall := i.Val.(*ssa.Call); isCall {
		name := ""
		if b, isB := c.Call.Value.(*ssa.Builtin); isB {
			name = b.Name()
		} else if callee := c.Call.StaticCallee(); callee != nil {
			name = calleeKey(callee)
			if !x.prog.inScope(callee) {
				name = fullName(callee)
			}
		}
		what = "result of " + name
		for _, a := range allowed {
			if a == name && len(c.Call.Args) > 0 && isLoadOfField(c.Call.Args[0]) {
				okStore = true
			}
		}
	}
	n := x.storeOrdinal(i, fa)
	x.assert(st, fmt.Sprintf("site:store:%s#%d", fname, n), BoolC(okStore), "the output field "+fname+" is only extended by "+strings.Join(allowed, ", ")+" applied to its current value (here: "+what+")", i.Pos())
}

// storeOrdinal numbers the stores to the same field inside the function in source order.
func (x *Exec) storeOrdinal(i *ssa.Store, fa *ssa.FieldAddr) int {
	n := 0
	for _, b := range i.Parent().Blocks {
		for _, in := range b.Instrs {
			if s2, ok := in.(*ssa.Store); ok && s2 != i {
				if f2, ok := s2.Addr.(*ssa.FieldAddr); ok && f2.Field == fa.Field && types.Identical(f2.X.Type(), fa.X.Type()) && s2.Pos() < i.Pos() {
					n++
				}
			}
		}
	}
	return n
}

// ptrRoot: in naive form a parameter or local pointer is re-loaded from its cell before every use;
// two loads of the same never-reassigned cell denote the same pointer.
func ptrRoot(v ssa.Value) ssa.Value {
	if u, ok := v.(*ssa.UnOp); ok && u.Op == token.MUL {
		if a, ok := u.X.(*ssa.Alloc); ok {
			stores := 0
			for _, r := range *a.Referrers() {
				if s, ok := r.(*ssa.Store); ok && s.Addr == a {
					stores++
				}
			}
			if stores <= 1 {
				return a
			}
		}
	}
	return v
}

func (x *Exec) jump(st *State, b *ssa.BasicBlock) bool {
	fr := st.top()
	fr.prev = fr.block
	fr.block = b
	fr.idx = 0
	if len(st.frames) == 1 {
		if li := x.loops[b]; li != nil {
			return x.atLoopHead(st, li)
		}
	} else if b.Dominates(fr.prev) {
		x.fail("loop inside inlined callee %s", fr.fn.Name())
	}
	return true
}

func (x *Exec) atReturn(st *State, results []SV) {
	if x.fc != nil {
		env := x.contractEnv(st, results, st.entry)
		if len(x.fc.Uses) > 0 {
			// lemma hints may mention the locals live at the return
			uenv := x.contractEnv(st, results, st.entry)
			// in a hint a name denotes the current value of the variable (its cell);
			// names without a cell (result, resultN) keep the returned value
			x.bindLocals(uenv, st.top(), nil)
			for _, u := range x.fc.Uses {
				func() {
					defer func() {
						if r := recover(); r != nil {
							if _, ok := r.(cevalErr); ok {
								return // hint mentions a local that is not live on this path
							}
							panic(r)
						}
					}()
					st.assume(uenv.evalBool(u))
				}()
			}
		}
		for _, c := range x.fc.Ensures {
			x.assert(st, "post:"+c.Label, env.evalBool(c.Expr), c.Text, x.retPos)
		}
	}
	x.checkFrame(st)
}

// checkFrame: every heap key the path changed must be licensed by modifies.
func (x *Exec) checkFrame(st *State) {
	if x.fc == nil {
		return
	}
	every := false
	for _, m := range x.fc.Modifies {
		if m == "everything" {
			every = true
		}
	}
	if st.havocked {
		x.assert(st, "frame:everything", BoolC(every), "a function that calls abstracted (havoccall) code must declare modifies everything", token.NoPos)
		return
	}
	if every {
		return
	}
	allowed := x.prog.modifiesSpec(x, x.fn, x.fc)
	var keys []string
	for k := range st.heap {
		if k == epochKey {
			continue
		}
		keys = append(keys, k)
	}
	sort.Strings(keys)
	for _, k := range keys {
		cur := st.heap[k]
		init := Var("H0."+k, cur.Sort)
		if cur.Op == "var" && cur.Name == init.Name {
			continue
		}
		x.frameObligation(st, k, cur, init, allowed)
	}
}

// ---- values ----

func (x *Exec) value(st *State, v ssa.Value) SV {
	fr := st.top()
	switch c := v.(type) {
	case *ssa.Const:
		return x.constValue(c)
	case *ssa.Function:
		return SV{K: KFunc, Fn: c, Ty: c.Type()}
	case *ssa.Global:
		return SV{K: KRef, Ty: c.Type(), Loc: &Loc{Global: c}}
	case *ssa.Builtin:
		x.fail("builtin %s used as a value", c.Name())
	}
	if sv, ok := fr.regs[v]; ok {
		return sv
	}
	x.fail("value %s (%T) not defined on this path in %s", v.Name(), v, fr.fn.Name())
	return SV{}
}

func (x *Exec) constValue(c *ssa.Const) SV {
	t := c.Type()
	if c.Value == nil {
		return x.zeroOf(t)
	}
	switch typeKind(t) {
	case KInt:
		if i, ok := constantToBig(c); ok {
			return intSV(BigC(i), t)
		}
		x.fail("constant %s", c)
	case KBool:
		return boolSV(BoolC(constantBool(c)))
	case KSeq:
		s := constantString(c)
		return x.prog.stringConst(x, s, t)
	}
	x.fail("constant of type %s", t)
	return SV{}
}

func (x *Exec) addrOf(st *State, v ssa.Value, pos token.Pos) *Loc {
	p := x.value(st, v)
	return x.locOfPtr(st, p, v.Type(), pos)
}

func (x *Exec) locOfPtr(st *State, p SV, pt types.Type, pos token.Pos) *Loc {
	if p.Loc != nil {
		return p.Loc
	}
	ptr, ok := pt.Underlying().(*types.Pointer)
	if !ok {
		x.fail("address of non-pointer type %s", pt)
	}
	if p.T == nil {
		x.fail("pointer without a reference")
	}
	x.safe(st, "nil", Ne(p.T, IntC(0)), "nil dereference", pos)
	return &Loc{Ref: p.T, RefTy: ptr.Elem()}
}

func (x *Exec) evalInstr(st *State, in ssa.Instruction) SV {
	fr := st.top()
	switch i := in.(type) {
	case *ssa.Alloc:
		et := i.Type().(*types.Pointer).Elem()
		if arr, isArr := et.Underlying().(*types.Array); isArr {
			// arrays are backing stores in the element heaps
			id := x.allocRef(st)
			sl := SV{K: KSeq, Id: id, Off: IntC(0), Len: IntC(arr.Len()), Cap: IntC(arr.Len()), Ty: types.NewSlice(arr.Elem())}
			x.zeroBacking(st, sl, arr.Elem())
			return SV{K: KRef, T: id, Ty: i.Type(), Loc: nil, Dyn: &sl}
		}
		if fr.fn == x.fn && !x.escaping[i] || fr.fn != x.fn && !allocEscapes(i) {
			fr.cells[i] = x.zeroOf(et)
			return SV{K: KRef, Ty: i.Type(), Loc: &Loc{Alloc: i}}
		}
		r := x.allocRef(st)
		l := &Loc{Ref: r, RefTy: et}
		x.store(st, l, x.zeroOf(et))
		return refSV(r, i.Type())
	case *ssa.UnOp:
		switch i.Op {
		case token.MUL:
			p := x.value(st, i.X)
			if p.Dyn != nil && p.Dyn.K == KSeq && p.Loc == nil {
				if _, isArr := i.Type().Underlying().(*types.Array); isArr {
					used := false
					if refs := i.Referrers(); refs != nil {
						for _, r := range *refs {
							if _, dbg := r.(*ssa.DebugRef); !dbg {
								used = true
							}
						}
					}
					if !used {
						// the value of a range expression over a local array that only the index
						// is taken from: loaded by the SSA builder, never used
						return SV{K: KInt, T: IntC(0), Ty: i.Type()}
					}
					x.fail("array value copy")
				}
			}
			l := x.locOfPtr(st, p, i.X.Type(), i.Pos())
			return x.load(st, l)
		case token.NOT:
			return boolSV(Not(x.value(st, i.X).T))
		case token.SUB:
			v := x.value(st, i.X)
			return x.wrapInt(st, Neg(v.T), i.Type(), i.Pos())
		case token.XOR:
			v := x.value(st, i.X)
			// ^x = -x-1 for signed; for unsigned: max - x
			bits, signed := intBits(i.Type())
			if signed {
				return intSV(Sub(Neg(v.T), IntC(1)), i.Type())
			}
			return intSV(Sub(BigC(bigPow2m1(uint(bits))), v.T), i.Type())
		}
		x.fail("unary operator %s", i.Op)
	case *ssa.BinOp:
		return x.binop(st, i)
	case *ssa.Phi:
		for k, p := range fr.block.Preds {
			if p == fr.prev {
				return x.value(st, i.Edges[k])
			}
		}
		x.fail("phi without matching predecessor")
	case *ssa.FieldAddr:
		p := x.value(st, i.X)
		l := x.locOfPtr(st, p, i.X.Type(), i.Pos())
		return SV{K: KRef, Ty: i.Type(), Loc: l.withField(i.Field)}
	case *ssa.Field:
		s := x.value(st, i.X)
		return s.Fields[i.Field]
	case *ssa.IndexAddr:
		base := x.value(st, i.X)
		idx := x.value(st, i.Index).T
		var sl SV
		switch {
		case base.K == KSeq:
			sl = base
		case base.Dyn != nil && base.Dyn.K == KSeq:
			sl = *base.Dyn
		default:
			x.fail("IndexAddr on %s", i.X.Type())
		}
		x.safe(st, "index", And(Le(IntC(0), idx), Lt(idx, sl.Len)), "index in range", i.Pos())
		et := elemTypeOf(i.X.Type())
		return SV{K: KRef, Ty: i.Type(), Loc: &Loc{Slice: &sl, Index: idx, ElemTy: et}}
	case *ssa.Index:
		base := x.value(st, i.X)
		idx := x.value(st, i.Index).T
		if base.K != KSeq {
			x.fail("Index on %s", i.X.Type())
		}
		x.safe(st, "index", And(Le(IntC(0), idx), Lt(idx, base.Len)), "index in range", i.Pos())
		l := &Loc{Slice: &base, Index: idx, ElemTy: elemTypeOf(i.X.Type())}
		return x.load(st, l)
	case *ssa.Lookup:
		if typeKind(i.X.Type()) == KSeq {
			base := x.value(st, i.X)
			idx := x.value(st, i.Index).T
			x.safe(st, "index", And(Le(IntC(0), idx), Lt(idx, base.Len)), "string index in range", i.Pos())
			l := &Loc{Slice: &base, Index: idx, ElemTy: types.Typ[types.Byte], Str: true}
			return x.load(st, l)
		}
		return x.mapLookup(st, i)
	case *ssa.Slice:
		return x.sliceOp(st, i)
	case *ssa.Convert:
		return x.convert(st, i)
	case *ssa.ChangeType:
		v := x.value(st, i.X)
		v.Ty = i.Type()
		return v
	case *ssa.ChangeInterface:
		v := x.value(st, i.X)
		v.Ty = i.Type()
		return v
	case *ssa.MakeInterface:
		v := x.value(st, i.X)
		return x.makeInterface(st, v, i.X.Type(), i.Type())
	case *ssa.TypeAssert:
		return x.typeAssert(st, i)
	case *ssa.Extract:
		t := x.value(st, i.Tuple)
		return t.Fields[i.Index]
	case *ssa.MakeSlice:
		n := x.value(st, i.Len).T
		c := x.value(st, i.Cap).T
		x.safe(st, "make", And(Le(IntC(0), n), Le(n, c), Le(c, MaxLenTerm)), "make: 0 <= len <= cap", i.Pos())
		id := x.allocRef(st)
		sl := SV{K: KSeq, Id: id, Off: IntC(0), Len: n, Cap: c, Ty: i.Type()}
		x.zeroBacking(st, sl, elemTypeOf(i.Type()))
		return sl
	case *ssa.MakeClosure:
		fv := SV{K: KFunc, Fn: i.Fn.(*ssa.Function), Ty: i.Type()}
		for _, b := range i.Bindings {
			fv.Bind = append(fv.Bind, x.value(st, b))
		}
		return fv
	case *ssa.MakeMap:
		r := x.allocRef(st)
		x.initMap(st, r, i.Type())
		return refSV(r, i.Type())
	case *ssa.Range:
		return x.rangeInit(st, i)
	case *ssa.Next:
		return x.rangeNext(st, i)
	}
	x.fail("unsupported instruction %T (%s)", in, in)
	return SV{}
}

func (x *Exec) allocRef(st *State) *Term {
	r := Var(x.freshName("new"), SInt)
	st.assume(Eq(r, st.wm))
	nw := Var(x.freshName("WM"), SInt)
	st.assume(Eq(nw, Add(st.wm, IntC(1))))
	st.wm = nw
	return r
}

// zeroBacking sets every element of a fresh backing store to zero.
func (x *Exec) zeroBacking(st *State, sl SV, et types.Type) {
	base := elemKeyBase(et)
	for _, lf := range leavesOf(et) {
		k := base + lf.suffix
		s := arrayOf(arrayOf(lf.sort))
		x.registerKey(k, s)
		arr := x.heapGet(st.heap, k, s)
		var z *Term
		if lf.sort == SBool {
			z = App("falsearr", SArrB)
		} else {
			z = App("zeroarr", SArrI)
		}
		st.heap[k] = Store(arr, sl.Id, z)
	}
}

func (x *Exec) sliceOp(st *State, i *ssa.Slice) SV {
	base := x.value(st, i.X)
	var sl SV
	isString := false
	switch {
	case base.K == KSeq:
		sl = base
		if b, ok := i.X.Type().Underlying().(*types.Basic); ok && b.Info()&types.IsString != 0 {
			isString = true
		}
	case base.Dyn != nil && base.Dyn.K == KSeq:
		sl = *base.Dyn
	default:
		x.fail("Slice on %s", i.X.Type())
	}
	lo := IntC(0)
	if i.Low != nil {
		lo = x.value(st, i.Low).T
	}
	limit := sl.Cap
	if isString {
		limit = sl.Len
	}
	hi := sl.Len
	if i.High != nil {
		hi = x.value(st, i.High).T
	}
	var mx *Term
	if i.Max != nil {
		mx = x.value(st, i.Max).T
		x.safe(st, "slice", And(Le(IntC(0), lo), Le(lo, hi), Le(hi, mx), Le(mx, sl.Cap)), "slice bounds", i.Pos())
	} else {
		x.safe(st, "slice", And(Le(IntC(0), lo), Le(lo, hi), Le(hi, limit)), "slice bounds", i.Pos())
	}
	n := SV{K: KSeq, Ty: i.Type(), Id: sl.Id, Off: Add(sl.Off, lo), Len: Sub(hi, lo)}
	if mx != nil {
		n.Cap = Sub(mx, lo)
	} else if isString {
		n.Cap = n.Len
	} else {
		n.Cap = Sub(sl.Cap, lo)
	}
	return n
}

// wrapInt applies the wrap-around semantics of Go's fixed-width integers.
// For int/int64/uint64 the result is kept mathematical and a range obligation
// is generated instead; narrower types are reduced modulo 2^bits exactly.
func (x *Exec) wrapInt(st *State, t *Term, ty types.Type, pos token.Pos) SV {
	bits, signed := intBits(ty)
	lo, hi, _ := intRange(ty)
	if bits == 64 {
		if !t.IsInt() {
			x.safe(st, "range", And(Le(lo, t), Le(t, hi)), "no integer overflow", pos)
		}
		return intSV(t, ty)
	}
	m := BigC(bigPow2(uint(bits)))
	if !signed {
		return intSV(EMod(t, m), ty)
	}
	half := BigC(bigPow2(uint(bits - 1)))
	return intSV(Sub(EMod(Add(t, half), m), half), ty)
}

func (x *Exec) binop(st *State, i *ssa.BinOp) SV {
	a := x.value(st, i.X)
	b := x.value(st, i.Y)
	xt := i.X.Type()
	switch i.Op {
	case token.EQL, token.NEQ:
		eq := x.equal(st, a, b, xt, i.Y.Type())
		if i.Op == token.NEQ {
			eq = Not(eq)
		}
		return boolSV(eq)
	case token.LSS, token.LEQ, token.GTR, token.GEQ:
		if a.K == KSeq {
			x.fail("string ordering comparison")
		}
		switch i.Op {
		case token.LSS:
			return boolSV(Lt(a.T, b.T))
		case token.LEQ:
			return boolSV(Le(a.T, b.T))
		case token.GTR:
			return boolSV(Gt(a.T, b.T))
		default:
			return boolSV(Ge(a.T, b.T))
		}
	case token.ADD:
		if a.K == KSeq {
			return x.concat(st, a, b, i.Type())
		}
		return x.wrapInt(st, Add(a.T, b.T), i.Type(), i.Pos())
	case token.SUB:
		return x.wrapInt(st, Sub(a.T, b.T), i.Type(), i.Pos())
	case token.MUL:
		return x.wrapInt(st, Mul(a.T, b.T), i.Type(), i.Pos())
	case token.QUO:
		x.safe(st, "div", Ne(b.T, IntC(0)), "division by zero", i.Pos())
		return x.wrapInt(st, GoDiv(a.T, b.T), i.Type(), i.Pos())
	case token.REM:
		x.safe(st, "div", Ne(b.T, IntC(0)), "division by zero", i.Pos())
		return intSV(GoMod(a.T, b.T), i.Type())
	case token.AND, token.OR, token.XOR, token.AND_NOT:
		if a.K == KBool {
			x.fail("bitwise operator on bool")
		}
		return intSV(x.bitop(st, i.Op, a.T, b.T, i.Type()), i.Type())
	case token.SHL:
		if !b.T.IsInt() {
			x.fail("shift by a non-constant")
		}
		k := uint(b.T.Int.Int64())
		return x.wrapInt(st, Mul(a.T, BigC(bigPow2(k))), i.Type(), i.Pos())
	case token.SHR:
		if !b.T.IsInt() {
			x.fail("shift by a non-constant")
		}
		k := uint(b.T.Int.Int64())
		return intSV(EDiv(a.T, BigC(bigPow2(k))), i.Type()) // floor division = arithmetic shift
	}
	x.fail("binary operator %s", i.Op)
	return SV{}
}

// bitop: bitwise operators.  With a constant operand the result is written
// with div/mod; otherwise (small unsigned types only) by bit decomposition.
func (x *Exec) bitop(st *State, op token.Token, a, b *Term, ty types.Type) *Term {
	bits, signed := intBits(ty)
	if op == token.AND_NOT && b.IsInt() {
		// a &^ m  =  a & ^m
		m := new(bigInt).Set(b.Int)
		// for masks of the form 2^k-1: a - (a mod 2^k)
		if k, ok := lowMask(m); ok {
			return Sub(a, EMod(a, BigC(bigPow2(k))))
		}
		return x.maskBits(a, m, bits, true)
	}
	if op == token.AND {
		if a.IsInt() && !b.IsInt() {
			a, b = b, a
		}
		if b.IsInt() && b.Int.Sign() >= 0 {
			if k, ok := lowMask(b.Int); ok {
				return EMod(a, BigC(bigPow2(k)))
			}
			return x.maskBits(a, b.Int, bits, false)
		}
	}
	if signed || bits > 16 {
		x.fail("bitwise %s on %s with non-constant operands", op, ty)
	}
	// bit decomposition
	res := IntC(0)
	for k := 0; k < bits; k++ {
		p := BigC(bigPow2(uint(k)))
		ba := EMod(EDiv(a, p), IntC(2))
		bb := EMod(EDiv(b, p), IntC(2))
		var bit *Term
		switch op {
		case token.AND:
			bit = Ite(And(Eq(ba, IntC(1)), Eq(bb, IntC(1))), IntC(1), IntC(0))
		case token.OR:
			bit = Ite(Or(Eq(ba, IntC(1)), Eq(bb, IntC(1))), IntC(1), IntC(0))
		case token.XOR:
			bit = Ite(Ne(ba, bb), IntC(1), IntC(0))
		case token.AND_NOT:
			bit = Ite(And(Eq(ba, IntC(1)), Eq(bb, IntC(0))), IntC(1), IntC(0))
		}
		res = Add(res, Mul(bit, p))
	}
	return res
}

// maskBits computes a & m (or a &^ m when clear) for a constant m >= 0 by summing selected bits.
func (x *Exec) maskBits(a *Term, m *bigInt, bits int, clear bool) *Term {
	if clear {
		// a &^ m = a - (a & m)
		return Sub(a, x.maskBits(a, m, bits, false))
	}
	res := IntC(0)
	for k := 0; k < m.BitLen(); k++ {
		if m.Bit(k) == 1 {
			p := BigC(bigPow2(uint(k)))
			res = Add(res, Mul(EMod(EDiv(a, p), IntC(2)), p))
		}
	}
	return res
}

func lowMask(m *bigInt) (uint, bool) {
	// m == 2^k - 1 ?
	n := new(bigInt).Add(m, bigOne)
	if n.Sign() > 0 && new(bigInt).And(n, m).Sign() == 0 {
		return uint(n.BitLen() - 1), true
	}
	return 0, false
}

func (x *Exec) equal(st *State, a, b SV, at, bt types.Type) *Term {
	switch a.K {
	case KInt, KBool:
		return Eq(a.T, b.T)
	case KRef, KFunc:
		if a.Loc != nil || b.Loc != nil {
			return x.locEqual(a, b)
		}
		ta, tb := a.T, b.T
		if a.K == KFunc && ta == nil {
			ta = x.funcID(a)
		}
		if b.K == KFunc && tb == nil {
			tb = x.funcID(b)
		}
		if ta == nil || tb == nil {
			x.fail("comparison of untracked references")
		}
		return Eq(ta, tb)
	case KSeq:
		if bs, ok := at.Underlying().(*types.Basic); ok && bs.Info()&types.IsString != 0 {
			return x.stringEq(st, a, b)
		}
		// slice == nil
		if b.K == KSeq && b.Id.IsInt() && b.Id.Int.Sign() == 0 {
			return Eq(a.Id, IntC(0))
		}
		if a.Id.IsInt() && a.Id.Int.Sign() == 0 {
			return Eq(b.Id, IntC(0))
		}
		x.fail("slice comparison")
	case KStruct:
		var cs []*Term
		st0 := at.Underlying().(*types.Struct)
		for k := range a.Fields {
			cs = append(cs, x.equal(st, a.Fields[k], b.Fields[k], st0.Field(k).Type(), st0.Field(k).Type()))
		}
		return And(cs...)
	}
	x.fail("equality on kind %d", a.K)
	return nil
}

func (x *Exec) locEqual(a, b SV) *Term {
	if a.Loc == nil || b.Loc == nil {
		// interior/local pointer vs heap reference or nil: a local address is never nil and never a heap ref
		return tFalse
	}
	la, lb := a.Loc, b.Loc
	if la.Alloc != nil && lb.Alloc != nil {
		if la.Alloc != lb.Alloc || len(la.Path) != len(lb.Path) {
			return tFalse
		}
		for i := range la.Path {
			if la.Path[i] != lb.Path[i] {
				return tFalse
			}
		}
		return tTrue
	}
	x.fail("comparison of interior pointers")
	return nil
}

func (x *Exec) stringEq(st *State, a, b SV) *Term {
	// constant on one side: pointwise
	if cs, ok := x.prog.constOf(b); ok {
		return x.seqEqConst(st, a, cs)
	}
	if cs, ok := x.prog.constOf(a); ok {
		return x.seqEqConst(st, b, cs)
	}
	k := Var(x.freshName("k!se"), SInt)
	return And(Eq(a.Len, b.Len), Forall([]*Term{k}, Implies(And(Le(IntC(0), k), Lt(k, a.Len)),
		Eq(x.byteAt(st, a, k), x.byteAt(st, b, k)))))
}

func (x *Exec) seqEqConst(st *State, a SV, s string) *Term {
	cs := []*Term{Eq(a.Len, IntC(int64(len(s))))}
	for i := 0; i < len(s); i++ {
		cs = append(cs, Eq(x.byteAt(st, a, IntC(int64(i))), IntC(int64(s[i]))))
	}
	return And(cs...)
}

func (x *Exec) convert(st *State, i *ssa.Convert) SV {
	v := x.value(st, i.X)
	from, to := i.X.Type(), i.Type()
	fk, tk := typeKind(from), typeKind(to)
	switch {
	case fk == KInt && tk == KInt:
		bits, signed := intBits(to)
		lo, hi, _ := intRange(from)
		tlo, thi, _ := intRange(to)
		// widening conversions are the identity
		if lo.Int.Cmp(tlo.Int) >= 0 && hi.Int.Cmp(thi.Int) <= 0 {
			return intSV(v.T, to)
		}
		m := BigC(bigPow2(uint(bits)))
		if !signed {
			return intSV(EMod(v.T, m), to)
		}
		half := BigC(bigPow2(uint(bits - 1)))
		return intSV(Sub(EMod(Add(v.T, half), m), half), to)
	case fk == KSeq && tk == KSeq:
		// string <-> []byte: a copy. The copy gets a fresh array id whose
		// contents are the whole source array value, so offsets carry over.
		fe, te := elemTypeOf(from), elemTypeOf(to)
		if typeKind(fe) != KInt || typeKind(te) != KInt || elemKeyBase(fe) != "E:byte" || elemKeyBase(te) != "E:byte" {
			x.fail("conversion %s -> %s", from, to)
		}
		sk, dk := "E:byte", "E:byte"
		if isStringType(from) {
			sk = "S:byte"
		}
		if isStringType(to) {
			dk = "S:byte"
		}
		x.registerKey(sk, SArr2)
		x.registerKey(dk, SArr2)
		var src *Term
		if v.Arr != nil {
			src = v.Arr
		} else {
			src = Select(x.heapGet(st.heap, sk, SArr2), v.Id)
		}
		id := x.allocRef(st)
		st.heap[dk] = Store(x.heapGet(st.heap, dk, SArr2), id, src)
		return SV{K: KSeq, Ty: to, Id: id, Off: v.Off, Len: v.Len, Cap: v.Len}
	case fk == KRef && tk == KRef:
		v.Ty = to
		return v
	}
	x.fail("conversion %s -> %s", from, to)
	return SV{}
}

func (x *Exec) concat(st *State, a, b SV, ty types.Type) SV {
	// string concatenation: fresh string with the two parts
	x.registerKey("S:byte", SArr2)
	arr := x.heapGet(st.heap, "S:byte", SArr2)
	id := x.allocRef(st)
	na := Var(x.freshName("cat"), SArrI)
	k := Var(x.freshName("k!cat"), SInt)
	st.assume(Forall([]*Term{k}, Implies(And(Le(IntC(0), k), Lt(k, a.Len)), Eq(Select(na, k), x.byteAt(st, a, k)))))
	k2 := Var(x.freshName("k!cat"), SInt)
	st.assume(Forall([]*Term{k2}, Implies(And(Le(IntC(0), k2), Lt(k2, b.Len)), Eq(Select(na, Add(a.Len, k2)), x.byteAt(st, b, k2)))))
	st.heap["S:byte"] = Store(arr, id, na)
	n := Add(a.Len, b.Len)
	return SV{K: KSeq, Ty: ty, Id: id, Off: IntC(0), Len: n, Cap: n}
}

// assertClause asserts a call-site / store-site clause.  A clause that cannot be evaluated on this body (it names a
// local that no longer exists, or one of another shape) becomes a failed obligation of its own, so that the rest of the
// function is still verified and a real defect behind the change is reported with its own counterexample.
func (x *Exec) assertClause(st *State, name string, env *CEnv, e *CExpr, text string, pos token.Pos) {
	var t *Term
	func() {
		defer func() {
			if r := recover(); r != nil {
				if _, ok := r.(unsupported); ok {
					panic(r)
				}
				msg := fmt.Sprint(r)
				if ce, ok := r.(cevalErr); ok {
					msg = ce.msg
				}
				if x.clauseErr == nil {
					x.clauseErr = fmt.Errorf("%s: %s", name, msg)
				}
				text = "clause cannot be evaluated on this body (" + msg + "): " + text
				t = tFalse
			}
		}()
		t = env.evalBool(e)
	}()
	x.assert(st, name, t, text, pos)
}
