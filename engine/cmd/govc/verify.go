package main

import (
	"crypto/sha256"
	"fmt"
	"sort"
	"os"
	"strings"
	"sync"
	"time"

	"golang.org/x/tools/go/ssa"
)

type OblResult struct {
	Name      string
	Func      string
	VCs       int
	Status    string // "discharged", "failed", "undecided"
	Solver    string
	Time      float64
	Desc      string
	Pos       string
	Failing   *Obligation // first failing VC
	FailRes   Result
	Serves    []string
	Disagree  bool
	FailedVCs []string
	exec      *Exec
}

type FuncResult struct {
	Key      string
	Err      error
	Obls     []*OblResult
	Paths    int
	Covers   int
	CoverBad []string
	Loops    int
	exec     *Exec
}

type verifyOpts struct {
	timeout      time.Duration
	thorough     bool
	depth        int
	pathCap      int
	workers      int
	filter       func(class string) bool // nil: discharge everything
	fullFallback bool
}

func (p *Program) newExec(fn *ssa.Function, fc *FuncContract, opts verifyOpts) *Exec {
	key := p.funcKeys[fn]
	x := &Exec{prog: p, fn: fn, fc: fc, name: key, pathCap: opts.pathCap}
	return x
}

func (x *Exec) globalAxioms() []*Term {
	var out []*Term
	// constant strings: contents of the immutable string store at their ids
	var names []string
	strMu.Lock()
	byID := map[string]string{}
	for n, v := range x.prog.strByID {
		names = append(names, n)
		byID[n] = v
	}
	strMu.Unlock()
	sort.Strings(names)
	for _, n := range names {
		s := byID[n]
		id := App(n, SInt)
		arr := App("zeroarr", SArrI)
		_ = arr
		cs := []*Term{Lt(IntC(0), id), Lt(id, Var("WM0", SInt))}
		h := Var("H0.S:byte", SArr2)
		for i := 0; i < len(s); i++ {
			cs = append(cs, Eq(Select(Select(h, id), IntC(int64(i))), IntC(int64(s[i]))))
		}
		out = append(out, And(cs...))
	}
	return out
}

func mentionsName(ts []*Term, goal *Term, prefix string) map[string]bool {
	found := map[string]bool{}
	var walk func(t *Term)
	walk = func(t *Term) {
		if t.Op == "app" && strings.HasPrefix(t.Name, prefix) {
			found[t.Name] = true
		}
		for _, a := range t.Args {
			walk(a)
		}
	}
	for _, t := range ts {
		walk(t)
	}
	if goal != nil {
		walk(goal)
	}
	return found
}

func (x *Exec) buildQuery(o *Obligation, depth int) *Query { return x.buildQueryR(o, depth, 1) }

func (x *Exec) buildQueryR(o *Obligation, depth int, rounds int) *Query {
	return x.buildQueryM(o, depth, rounds, false)
}

// arraySyms collects the array-sorted free symbols of t (heap versions, fresh array variables, array-valued functions).
func arraySyms(t *Term, out map[string]bool) {
	if t == nil {
		return
	}
	isArr := t.Sort == SArrI || t.Sort == SArrB || t.Sort == SArr2 || t.Sort == SAr2B
	if isArr && (t.Op == "var" || (t.Op == "app" && len(t.Args) == 0)) {
		out[t.Name] = true
	}
	if isArr && t.Op == "app" && t.Name != "store" && t.Name != "select" && t.Name != "ite" && len(t.Args) > 0 {
		out[t.String()] = true
	}
	for _, a := range t.Args {
		arraySyms(a, out)
	}
}

// sliceAssumes drops quantified assumptions that talk about arrays unrelated (transitively, through shared
// array symbols) to the goal.  Dropping assumptions is sound; it keeps the instantiation focused.
// splitConj flattens conjunctions and distributes a universal quantifier over a conjunction in its body
// (forall k. G => (A and B)  ==  (forall k. G => A) and (forall k. G => B)), so that facts about
// different arrays become separate assumptions.
func splitConj(t *Term, out *[]*Term) {
	if t.Op == "app" && t.Name == "and" {
		for _, a := range t.Args {
			splitConj(a, out)
		}
		return
	}
	if t.Op == "forall" && len(t.Args) == 1 {
		body := t.Args[0]
		var guard, cons *Term
		if body.Op == "app" && body.Name == "=>" && len(body.Args) == 2 {
			guard, cons = body.Args[0], body.Args[1]
		} else {
			cons = body
		}
		if cons.Op == "app" && cons.Name == "and" && len(cons.Args) > 1 {
			for _, c := range cons.Args {
				nb := c
				if guard != nil {
					nb = Implies(guard, c)
				}
				nt := &Term{Op: "forall", Sort: SBool, Bound: t.Bound, Args: []*Term{nb}, Pats: nil}
				splitConj(nt, out)
			}
			return
		}
	}
	*out = append(*out, t)
}

func sliceAssumes(assumes []*Term, goal *Term) []*Term {
	if goal == nil || len(assumes) < 40 {
		return assumes
	}
	var flat []*Term
	for _, a := range assumes {
		splitConj(a, &flat)
	}
	assumes = flat
	rel := map[string]bool{}
	arraySyms(goal, rel)
	if len(rel) == 0 {
		return assumes
	}
	type info struct {
		syms   map[string]bool
		quant  bool
		keep   bool
	}
	infos := make([]*info, len(assumes))
	for i, a := range assumes {
		in := &info{syms: map[string]bool{}, quant: hasQuantifier(a)}
		arraySyms(a, in.syms)
		in.keep = !in.quant || len(in.syms) == 0
		infos[i] = in
	}
	for changed := true; changed; {
		changed = false
		for _, in := range infos {
			if !in.quant {
				continue
			}
			touches := false
			for s := range in.syms {
				if rel[s] {
					touches = true
					break
				}
			}
			if !touches {
				continue
			}
			if !in.keep {
				in.keep = true
				changed = true
			}
			for s := range in.syms {
				if !rel[s] {
					rel[s] = true
					changed = true
				}
			}
		}
	}
	var out []*Term
	for i, a := range assumes {
		if infos[i].keep {
			out = append(out, a)
		}
	}
	return out
}

var sliceByDefault = false

func (x *Exec) buildQueryM(o *Obligation, depth int, rounds int, qfMode bool) *Query {
	return x.buildQueryS(o, depth, rounds, qfMode, sliceByDefault)
}

func (x *Exec) buildQueryS(o *Obligation, depth int, rounds int, qfMode bool, slice bool) *Query {
	base := o.Assumes
	if slice {
		base = sliceAssumes(o.Assumes, o.Goal)
	}
	extra := x.instantiate(base, o.Goal, depth)
	assumes := append([]*Term(nil), base...)
	assumes = append(assumes, extra...)
	used := mentionsName(assumes, o.Goal, "strconst.")
	if len(used) > 0 {
		for _, ax := range x.globalAxioms() {
			for n := range mentionsName([]*Term{ax}, nil, "strconst.") {
				if used[n] {
					assumes = append(assumes, ax)
					break
				}
			}
		}
	}
	if len(mentionsName(assumes, o.Goal, "ext.unicode.Is.Zs")) > 0 {
		// assumed fact about the dependency: the only ASCII code point of category Zs is U+0020
		cv := Var("c!zs", SInt)
		zs := App("ext.unicode.Is.Zs", SBool, cv)
		ax := Forall([]*Term{cv}, Implies(And(Le(IntC(0), cv), Le(cv, IntC(0x7f))), Eq(zs, Eq(cv, IntC(0x20)))))
		ax.Pats = [][]*Term{{zs}}
		assumes = append(assumes, ax)
	}
	assumes = append(assumes, seqValAxioms(assumes, o.Goal)...)
	assumes = append(assumes, atomAxioms(assumes, o.Goal)...)
	goal := o.Goal
	if qfMode {
		assumes, goal = qfWeakenOrder(assumes, goal, rounds, x.qfForward)
		return &Query{Name: o.Name, Assumes: assumes, Goal: goal}
	}
	assumes, goal = expandQuantifiers(assumes, goal, rounds)
	return &Query{Name: o.Name, Assumes: assumes, Goal: goal}
}

var vcCache sync.Map // hash -> Result

func dischargeVC(x *Exec, o *Obligation, opts verifyOpts) (Result, bool) {
	// first the quantifier-free weakening (decidable, fast, stable); then the quantified query
	var r, qfRes Result
	disagree := false
	prevText := ""
	for attempt, forward := range []bool{false, false, true} {
		xx := *x
		xx.qfForward = forward
		rounds := 6
		if attempt == 0 {
			// most safety conditions and arithmetic invariants need no quantifier instance at all
			rounds = 0
		}
		q := (&xx).buildQueryM(o, opts.depth, rounds, true)
		text := q.smtlib(false, "z3")
		h := sha256.Sum256([]byte("qf" + text))
		key := string(h[:])
		var qr Result
		if c, ok := vcCache.Load(key); ok {
			qr = c.(Result)
		} else {
			if opts.thorough {
				qr, disagree = proveAll(q, opts.timeout)
			} else {
				qr = prove(q, opts.timeout)
			}
			if qr.Status == "unsat" || qr.Status == "sat" {
				// a time-out is not a fact about the query: never remembered, so that a retry with a
				// longer limit really asks again
				vcCache.Store(key, qr)
			}
		}
		if qr.Status == "unsat" {
			return qr, disagree
		}
		if attempt == 0 {
			// the VC as generated, quantifiers left to the solvers: when a quantified hypothesis is needed at the
			// goal's own skolem constants (an invariant carried unchanged, a callee's postcondition used as is),
			// e-matching finds the instance at once, while enumerating candidate instances below can drown it
			raw := &Query{Name: o.Name, Assumes: o.Assumes, Goal: o.Goal}
			rtext := raw.smtlib(false, "z3")
			rh := sha256.Sum256([]byte("raw" + rtext))
			rkey := string(rh[:])
			var rr Result
			if c, ok := vcCache.Load(rkey); ok {
				rr = c.(Result)
			} else {
				rt := opts.timeout
				if rt > 1500*time.Millisecond {
					// the instances this attempt is for are found at once or not at all
					rt = 1500 * time.Millisecond
				}
				rr = prove(raw, rt)
				if rr.Status == "unsat" {
					vcCache.Store(rkey, rr)
				}
			}
			if rr.Status == "unsat" {
				return rr, disagree
			}
		}
		if attempt == 1 {
			r = qr
			qfRes = qr
		}
	}
	for _, rounds := range []int{1, 3} {
		q := x.buildQueryR(o, opts.depth, rounds)
		text := q.smtlib(false, "z3")
		if text == prevText {
			break
		}
		prevText = text
		h := sha256.Sum256([]byte(text))
		key := string(h[:])
		if c, ok := vcCache.Load(key); ok {
			r = c.(Result)
		} else {
			if opts.thorough {
				r, disagree = proveAll(q, opts.timeout)
			} else {
				r = prove(q, opts.timeout)
			}
			if r.Status == "unsat" || r.Status == "sat" {
				vcCache.Store(key, r)
			}
		}
		if r.Status == "unsat" {
			return r, disagree
		}
		if !opts.fullFallback {
			break
		}
	}
	if qfRes.Status == "sat" && r.Status != "sat" {
		// the quantifier-free weakening has a model (a candidate counterexample to replay)
		return qfRes, disagree
	}
	return r, disagree
}

// verifyFunc runs the symbolic executor on one function and discharges its obligations.
func (p *Program) verifyFunc(fn *ssa.Function, fc *FuncContract, opts verifyOpts) *FuncResult {
	fr := p.verifyFuncWith(fn, fc, opts, nil)
	if fr.exec == nil || (fr.Err == nil && fr.exec.clauseErr == nil) || len(fr.exec.renameCands) != 1 {
		return fr
	}
	// A name used by invariants/hints no longer denotes a local and several locals are unmentioned: try each.
	// Invariants are proof hints, so any binding under which every obligation discharges is a proof.
	for name, cands := range fr.exec.renameCands {
		for _, c := range cands {
			alt := p.verifyFuncWith(fn, fc, opts, map[string]string{name: c})
			if alt.Err != nil {
				continue
			}
			ok := true
			for _, o := range alt.Obls {
				if o.Status != "discharged" && !unclaimedClass(fc, oblClass(o.Name)) {
					ok = false
				}
			}
			if ok {
				return alt
			}
		}
	}
	return fr
}

func unclaimedClass(fc *FuncContract, class string) bool {
	if fc == nil {
		return false
	}
	for uc := range fc.Unclaimed {
		if class == uc || strings.HasPrefix(class, uc+":") || strings.HasPrefix(class, uc+"#") {
			return true
		}
	}
	return false
}

func (p *Program) verifyFuncWith(fn *ssa.Function, fc *FuncContract, opts verifyOpts, rename map[string]string) *FuncResult {
	x := p.newExec(fn, fc, opts)
	x.renameMap = rename
	fr := &FuncResult{Key: x.name, exec: x}
	x.verifyFunction()
	fr.Paths = x.paths
	fr.Loops = len(x.loops)
	if x.err != nil {
		fr.Err = x.err
		return fr
	}
	// group VCs by obligation name
	byName := map[string][]*Obligation{}
	var names []string
	for _, o := range x.obls {
		if _, ok := byName[o.Name]; !ok {
			names = append(names, o.Name)
		}
		byName[o.Name] = append(byName[o.Name], o)
	}
	sort.Strings(names)
	type job struct {
		o   *Obligation
		res Result
		dis bool
	}
	var jobs []*job
	if opts.filter != nil {
		var keep []string
		for _, n := range names {
			if opts.filter(oblClass(n)) {
				keep = append(keep, n)
			}
		}
		names = keep
	}
	for _, n := range names {
		for _, o := range byName[n] {
			jobs = append(jobs, &job{o: o})
		}
	}
	var wg sync.WaitGroup
	sem := make(chan struct{}, opts.workers)
	for _, j := range jobs {
		wg.Add(1)
		sem <- struct{}{}
		go func(j *job) {
			defer wg.Done()
			defer func() { <-sem }()
			defer func() {
				if r := recover(); r != nil {
					j.res = Result{Status: "error", Output: fmt.Sprint(r)}
				}
			}()
			j.res, j.dis = dischargeVC(x, j.o, opts)
		}(j)
	}
	wg.Wait()
	jobBy := map[*Obligation]*job{}
	for _, j := range jobs {
		jobBy[j.o] = j
	}
	for _, n := range names {
		or := &OblResult{Name: n, Func: x.name, VCs: len(byName[n]), Status: "discharged", exec: x}
		if fc != nil {
			or.Serves = fc.Serves
		}
		for _, o := range byName[n] {
			j := jobBy[o]
			if d := os.Getenv("GOVC_DUMP_ALL"); d != "" && strings.Contains(n, d) {
				// debugging aid: write every VC of the named obligation, discharged or not
				raw := &Query{Name: n, Assumes: o.Assumes, Goal: o.Goal}
				os.WriteFile(fmt.Sprintf("/tmp/vc-%s-path%d.smt2", d, o.PathID), []byte(raw.smtlib(false, "z3")), 0o644)
			}
			or.Time += j.res.Time
			if or.Desc == "" {
				or.Desc = o.Desc
				or.Pos = o.Pos
			}
			if j.dis {
				or.Disagree = true
			}
			if j.res.Status == "unsat" {
				if or.Solver == "" {
					or.Solver = j.res.Solver
				}
				continue
			}
			or.FailedVCs = append(or.FailedVCs, fmt.Sprintf("path %d at %s: %s", o.PathID, o.Pos, j.res.Status))
			if or.Failing == nil {
				or.Failing = o
				or.FailRes = j.res
			}
			if j.res.Status == "sat" {
				or.Status = "failed"
				or.Failing = o
				or.FailRes = j.res
			} else if or.Status != "failed" {
				or.Status = "undecided"
			}
		}
		fr.Obls = append(fr.Obls, or)
	}
	// vacuity: every cover query must be satisfiable
	// (a program point is reachable if it is reachable on some path)
	reach := map[string]bool{}
	var cnames []string
	for _, c := range x.covers {
		if _, ok := reach[c.Name]; !ok {
			cnames = append(cnames, c.Name)
			reach[c.Name] = false
		}
	}
	for _, c := range x.covers {
		if reach[c.Name] {
			continue
		}
		q := x.buildQuery(c, 1)
		q.Goal = nil
		r := runCover(q)
		if r.Status != "unsat" {
			reach[c.Name] = true
		}
	}
	fr.Covers = len(cnames)
	for _, n := range cnames {
		if !reach[n] {
			fr.CoverBad = append(fr.CoverBad, n)
		}
	}
	return fr
}

func runCover(q *Query) Result {
	// a cover query asks for satisfiability: unsat means the assumptions are contradictory
	q2 := &Query{Name: q.Name, Assumes: q.Assumes, Goal: BoolC(false)}
	text := q2.smtlib(false, "z3")
	h := sha256.Sum256([]byte("cover" + text))
	if r, ok := vcCache.Load(string(h[:])); ok {
		return r.(Result)
	}
	r := prove(q2, 3*time.Second)
	vcCache.Store(string(h[:]), r)
	return r
}
