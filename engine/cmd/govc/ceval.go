package main

// Symbolic evaluation of contract expressions to SMT terms.

import (
	"fmt"
	"go/types"
	"sort"
	"strings"
)

type CEnv struct {
	x         *Exec
	vars      map[string]SV
	cur       HeapView
	old       HeapView
	wmOld     *Term
	wmCur     *Term
	qn        *int
	entryVars map[string]SV // values of the parameters at function entry (for old())
	prev      *CEnv         // the environment at the head of the current loop iteration (step clauses)
	outer     *CEnv         // the environment at the head of the current iteration of the enclosing loop (inner-loop invariants)
	locals    map[string]SV // every named local cell of the current frame (for the rename fallback)
	st        *State        // when set: type invariants of values read from the heap are added to it as assumptions
}

// inv records the type invariants (slice header well-formedness, integer
// ranges) of a value a contract expression read from a heap state.  Every heap
// state of a path is the heap of a real execution, where these hold.
func (env *CEnv) inv(v SV) SV {
	if env.st == nil {
		env.x.pendingInv = nil
		return v
	}
	for _, a := range env.x.pendingInv {
		if !hasBoundVar(a) {
			env.st.assume(a)
		}
	}
	env.x.pendingInv = nil
	tmp := &State{wm: env.st.wm}
	env.x.assumeTypeInv(tmp, v)
	for _, a := range tmp.assumes {
		if !hasBoundVar(a) {
			env.st.assume(a)
		}
	}
	return v
}

// renamed: a contract names a local variable that no longer exists.  If exactly one local variable of the function
// is not mentioned anywhere in its contract, the name is taken to denote it (a renamed local must not become an
// alarm); the binding is reported as a warning in the evidence.
func (env *CEnv) renamed(name string) (SV, bool) {
	x := env.x
	if x == nil || x.fc == nil || env.locals == nil {
		return SV{}, false
	}
	if m, ok := x.renameMap[name]; ok {
		if v, ok2 := env.locals[m]; ok2 {
			return v, true
		}
		return SV{}, false
	}
	ids := x.contractIdents()
	var cands []string
	for n := range env.locals {
		if !ids[n] {
			cands = append(cands, n)
		}
	}
	sort.Strings(cands)
	if len(cands) != 1 {
		if len(cands) > 1 && len(cands) <= 4 {
			if x.renameCands == nil {
				x.renameCands = map[string][]string{}
			}
			x.renameCands[name] = cands
		}
		return SV{}, false
	}
	x.warnings = append(x.warnings, fmt.Sprintf("contract identifier %q bound to the only unmentioned local %q (renamed?)", name, cands[0]))
	return env.locals[cands[0]], true
}

func (env *CEnv) child() *CEnv {
	n := *env
	n.vars = map[string]SV{}
	for k, v := range env.vars {
		n.vars[k] = v
	}
	return &n
}

type cevalErr struct{ msg string }

func (env *CEnv) errf(format string, args ...interface{}) {
	panic(cevalErr{fmt.Sprintf(format, args...)})
}

const specPrefix = "spec."

func (env *CEnv) resolveSeq(s SV) SV {
	if s.K != KSeq {
		env.errf("expected a sequence, got %s", s)
	}
	if s.Arr != nil {
		return s
	}
	key := "E:byte"
	if s.Ty != nil {
		if et := elemTypeOf(s.Ty); et != nil {
			if typeKind(et) != KInt {
				env.errf("sequence of non-integer elements in a spec expression (%s)", s.Ty)
			}
			key = elemKeyBase(et)
		}
		if isStringType(s.Ty) {
			key = "S:byte"
		}
	}
	env.x.registerKey(key, SArr2)
	arr := Select(env.x.heapGet(env.cur, key, SArr2), s.Id)
	return SV{K: KSeq, Arr: arr, Off: s.Off, Len: s.Len, Cap: s.Cap, Ty: s.Ty, Id: s.Id}
}

func (env *CEnv) evalBool(e *CExpr) *Term {
	v := env.eval(e)
	if v.K != KBool {
		env.errf("expected bool in %s", e)
	}
	return v.T
}

func (env *CEnv) evalInt(e *CExpr) *Term {
	v := env.eval(e)
	if v.K != KInt && v.K != KRef {
		env.errf("expected int in %s (got kind %d)", e, v.K)
	}
	return v.T
}

func strConstSeq(s string) SV {
	arr := App("zeroarr", SArrI)
	for i := 0; i < len(s); i++ {
		arr = Store(arr, IntC(int64(i)), IntC(int64(s[i])))
	}
	return SV{K: KSeq, Arr: arr, Off: IntC(0), Len: IntC(int64(len(s))), Cap: IntC(int64(len(s)))}
}

func (env *CEnv) fieldOf(v SV, name string, e *CExpr) SV {
	switch v.K {
	case KStruct:
		st, ok := v.Ty.Underlying().(*types.Struct)
		if !ok {
			env.errf("field %s of non-struct in %s", name, e)
		}
		for i := 0; i < st.NumFields(); i++ {
			if st.Field(i).Name() == name {
				return v.Fields[i]
			}
		}
		// promoted through embedded struct
		for i := 0; i < st.NumFields(); i++ {
			if st.Field(i).Embedded() && v.Fields[i].K == KStruct {
				if est, ok := st.Field(i).Type().Underlying().(*types.Struct); ok {
					for j := 0; j < est.NumFields(); j++ {
						if est.Field(j).Name() == name {
							return v.Fields[i].Fields[j]
						}
					}
				}
			}
		}
		env.errf("no field %s in %s", name, v.Ty)
	case KRef:
		pt, ok := v.Ty.Underlying().(*types.Pointer)
		if !ok {
			env.errf("field %s of non-pointer reference in %s", name, e)
		}
		st, ok := pt.Elem().Underlying().(*types.Struct)
		if !ok {
			env.errf("field %s of pointer to non-struct in %s", name, e)
		}
		for i := 0; i < st.NumFields(); i++ {
			if st.Field(i).Name() == name {
				if v.Loc != nil {
					env.errf("field of local pointer in contract: %s", e)
				}
				l := &Loc{Ref: v.T, RefTy: pt.Elem(), Path: []int{i}}
				return env.inv(env.x.loadFrom(nil, env.cur, l, false))
			}
		}
		env.errf("no field %s in %s", name, pt.Elem())
	}
	env.errf("field access .%s on unsupported value in %s", name, e)
	return SV{}
}

func (env *CEnv) eval(e *CExpr) SV {
	switch e.Kind {
	case "int":
		return intSV(IntC(e.Int), types.Typ[types.Int])
	case "bool":
		return boolSV(BoolC(e.Bool))
	case "str":
		return strConstSeq(e.Str)
	case "id":
		if e.Str == "nil" {
			return refSV(IntC(0), types.Typ[types.UntypedNil])
		}
		if v, ok := env.vars[e.Str]; ok {
			return v
		}
		if c, ok := env.x.prog.constants[e.Str]; ok {
			return intSV(IntC(c), types.Typ[types.Int])
		}
		if v, ok := env.renamed(e.Str); ok {
			return v
		}
		env.errf("unknown identifier %q", e.Str)
	case "field":
		return env.fieldOf(env.eval(e.X), e.Str, e)
	case "index":
		sv := env.eval(e.X)
		if sv.K == KSeq && sv.Arr == nil && sv.Ty != nil {
			if et := elemTypeOf(sv.Ty); et != nil && typeKind(et) != KInt {
				// element of a slice of structs / pointers: read through the element heaps
				i := env.evalInt(e.Y)
				cp := sv
				return env.inv(env.x.loadFrom(nil, env.cur, &Loc{Slice: &cp, Index: i, ElemTy: et}, false))
			}
		}
		s := env.resolveSeq(sv)
		i := env.evalInt(e.Y)
		return intSV(Select(s.Arr, Add(s.Off, i)), types.Typ[types.Int])
	case "slice":
		s := env.eval(e.X)
		if s.K != KSeq {
			env.errf("slicing non-sequence in %s", e)
		}
		lo := IntC(0)
		hi := s.Len
		if e.Y != nil {
			lo = env.evalInt(e.Y)
		}
		if e.Z != nil {
			hi = env.evalInt(e.Z)
		}
		n := s
		n.Off = Add(s.Off, lo)
		n.Len = Sub(hi, lo)
		if s.Cap != nil {
			n.Cap = Sub(s.Cap, lo)
		}
		return n
	case "old":
		if env.old == nil {
			env.errf("old() not available here: %s", e)
		}
		n := *env
		n.cur = env.old
		if env.entryVars != nil {
			n.vars = map[string]SV{}
			for k, v := range env.vars {
				n.vars[k] = v
			}
			for k, v := range env.entryVars {
				n.vars[k] = v
			}
		}
		ov := n.eval(e.X)
		if ov.K == KSeq && ov.Arr == nil && ov.Ty != nil {
			if et := elemTypeOf(ov.Ty); et != nil && typeKind(et) == KInt {
				// the contents are those of the old state too
				ov = n.resolveSeq(ov)
			}
		}
		return ov
	case "deref":
		pv := env.eval(e.X)
		if pv.K == KRef && pv.Loc != nil && pv.Loc.Ref != nil {
			// interior pointer (&obj.field) into a heap object
			return env.inv(env.x.loadFrom(nil, env.cur, pv.Loc, false))
		}
		if pv.K == KRef && pv.Loc != nil && pv.Loc.Alloc != nil && env.st != nil {
			return env.x.loadFrom(env.st, env.cur, pv.Loc, false)
		}
		if pv.K != KRef || pv.T == nil || pv.Ty == nil {
			env.errf("cannot dereference %s", e.X)
		}
		pt, ok := pv.Ty.Underlying().(*types.Pointer)
		if !ok {
			env.errf("dereference of non-pointer %s", e.X)
		}
		return env.inv(env.x.loadFrom(nil, env.cur, &Loc{Ref: pv.T, RefTy: pt.Elem()}, false))
	case "unop":
		switch e.Str {
		case "!":
			return boolSV(Not(env.evalBool(e.X)))
		case "-":
			return intSV(Neg(env.evalInt(e.X)), types.Typ[types.Int])
		}
	case "cond":
		c := env.evalBool(e.X)
		a := env.eval(e.Y)
		b := env.eval(e.Z)
		if (a.K == KRef && b.K == KInt) || (a.K == KInt && b.K == KRef) {
			// references are integers
			return intSV(Ite(c, a.T, b.T), types.Typ[types.Int])
		}
		if a.K != b.K && !(a.K == KFunc || b.K == KFunc) {
			env.errf("branches of ?: differ in kind in %s", e)
		}
		if a.K == KFunc {
			if a.T == nil && a.Fn != nil {
				a.T = env.x.funcID(a)
			}
			if b.T == nil && b.Fn != nil {
				b.T = env.x.funcID(b)
			}
			return SV{K: KFunc, T: Ite(c, a.T, b.T), Ty: a.Ty}
		}
		switch a.K {
		case KInt, KRef:
			return SV{K: a.K, T: Ite(c, a.T, b.T), Ty: a.Ty}
		case KBool:
			return boolSV(Ite(c, a.T, b.T))
		}
		env.errf("?: on unsupported kind in %s", e)
	case "binop":
		return env.binop(e)
	case "forall", "exists":
		*env.qn++
		bv := Var(fmt.Sprintf("%s!q%d", e.Var, *env.qn), SInt)
		n := env.child()
		n.vars[e.Var] = intSV(bv, types.Typ[types.Int])
		var guard *Term = tTrue
		if e.Lo != nil {
			guard = And(Le(env.evalInt(e.Lo), bv), Lt(bv, env.evalInt(e.Hi)))
		}
		body := n.evalBool(e.Body)
		if e.Kind == "forall" {
			return boolSV(Forall([]*Term{bv}, Implies(guard, body)))
		}
		return boolSV(Exists([]*Term{bv}, And(guard, body)))
	case "call":
		return env.call(e)
	}
	env.errf("cannot evaluate %s", e)
	return SV{}
}

func (env *CEnv) eqSV(a, b SV, e *CExpr) *Term {
	if a.K == KSeq && b.K == KSeq {
		// nil comparison or extensional equality
		ra, rb := env.resolveSeq(a), env.resolveSeq(b)
		*env.qn++
		k := Var(fmt.Sprintf("k!q%d", *env.qn), SInt)
		return And(Eq(ra.Len, rb.Len), Forall([]*Term{k}, Implies(And(Le(IntC(0), k), Lt(k, ra.Len)),
			Eq(Select(ra.Arr, Add(ra.Off, k)), Select(rb.Arr, Add(rb.Off, k))))))
	}
	if a.K == KSeq && b.K == KRef { // s == nil
		return Eq(a.Id, IntC(0))
	}
	if a.K == KRef && b.K == KSeq {
		return Eq(b.Id, IntC(0))
	}
	if (a.K == KStruct || a.K == KTuple) && a.K == b.K {
		var cs []*Term
		for i := range a.Fields {
			cs = append(cs, env.eqSV(a.Fields[i], b.Fields[i], e))
		}
		return And(cs...)
	}
	if a.K == KFunc && a.T == nil && a.Fn != nil {
		a.T = env.x.funcID(a)
	}
	if b.K == KFunc && b.T == nil && b.Fn != nil {
		b.T = env.x.funcID(b)
	}
	if a.T == nil || b.T == nil {
		env.errf("cannot compare in %s", e)
	}
	if a.T.Sort != b.T.Sort {
		env.errf("comparison of different sorts in %s", e)
	}
	return Eq(a.T, b.T)
}

func (env *CEnv) binop(e *CExpr) SV {
	switch e.Str {
	case "&&":
		return boolSV(And(env.evalBool(e.X), env.evalBool(e.Y)))
	case "||":
		return boolSV(Or(env.evalBool(e.X), env.evalBool(e.Y)))
	case "==>":
		return boolSV(Implies(env.evalBool(e.X), env.evalBool(e.Y)))
	case "<==>":
		return boolSV(Eq(env.evalBool(e.X), env.evalBool(e.Y)))
	case "==":
		return boolSV(env.eqSV(env.eval(e.X), env.eval(e.Y), e))
	case "!=":
		return boolSV(Not(env.eqSV(env.eval(e.X), env.eval(e.Y), e)))
	}
	a, b := env.evalInt(e.X), env.evalInt(e.Y)
	it := types.Typ[types.Int]
	switch e.Str {
	case "<":
		return boolSV(Lt(a, b))
	case "<=":
		return boolSV(Le(a, b))
	case ">":
		return boolSV(Gt(a, b))
	case ">=":
		return boolSV(Ge(a, b))
	case "+":
		return intSV(Add(a, b), it)
	case "-":
		return intSV(Sub(a, b), it)
	case "*":
		return intSV(Mul(a, b), it)
	case "/":
		return intSV(GoDiv(a, b), it)
	case "%":
		return intSV(GoMod(a, b), it)
	}
	env.errf("unknown operator %s", e.Str)
	return SV{}
}

func specSort(ty string) Sort {
	if ty == "bool" {
		return SBool
	}
	return SInt
}

func isSeqType(ty string) bool { return ty == "[]byte" || ty == "string" || ty == "seq" }

func (env *CEnv) call(e *CExpr) SV {
	it := types.Typ[types.Int]
	switch e.Str {
	case "len":
		s := env.eval(e.Args[0])
		if s.K != KSeq {
			env.errf("len of non-sequence in %s", e)
		}
		return intSV(s.Len, it)
	case "cap":
		s := env.eval(e.Args[0])
		if s.K != KSeq || s.Cap == nil {
			env.errf("cap of non-slice in %s", e)
		}
		return intSV(s.Cap, it)
	case "min", "max":
		a, b := env.evalInt(e.Args[0]), env.evalInt(e.Args[1])
		if e.Str == "min" {
			return intSV(Ite(Le(a, b), a, b), it)
		}
		return intSV(Ite(Ge(a, b), a, b), it)
	case "aliases": // same backing array and same start
		a, b := env.eval(e.Args[0]), env.eval(e.Args[1])
		return boolSV(And(Eq(a.Id, b.Id), Eq(a.Off, b.Off)))
	case "sameArray":
		a, b := env.eval(e.Args[0]), env.eval(e.Args[1])
		return boolSV(Eq(a.Id, b.Id))
	case "offsetOf":
		a := env.eval(e.Args[0])
		return intSV(a.Off, it)
	case "fresh": // allocated after the pre-state
		a := env.eval(e.Args[0])
		if env.wmOld == nil {
			env.errf("fresh() outside a postcondition")
		}
		if a.K == KSeq {
			return boolSV(Ge(a.Id, env.wmOld))
		}
		return boolSV(Ge(a.T, env.wmOld))
	case "allocated": // existed in the pre-state
		a := env.eval(e.Args[0])
		wm := env.wmOld
		if wm == nil {
			wm = env.wmCur
		}
		if a.K == KSeq {
			return boolSV(Lt(a.Id, wm))
		}
		return boolSV(Lt(a.T, wm))
	case "global":
		// the (fixed) value of a package-level variable of reference type, e.g. global("io.EOF")
		if len(e.Args) != 1 || e.Args[0].Kind != "str" {
			env.errf("global(\"pkg.Name\")")
		}
		return refSV(App("G:"+e.Args[0].Str, SInt), types.Universe.Lookup("error").Type())
	case "funcval":
		if len(e.Args) != 1 || e.Args[0].Kind != "str" {
			env.errf("funcval(\"name\")")
		}
		fn := env.x.prog.byName[e.Args[0].Str]
		if fn == nil {
			env.errf("funcval: no function named %q", e.Args[0].Str)
		}
		v := SV{K: KFunc, Fn: fn, Ty: fn.Type()}
		v.T = env.x.funcID(v)
		return v
	case "apply":
		// the deterministic result of a pure callback
		f := env.eval(e.Args[0])
		if f.K != KFunc {
			env.errf("apply: not a function value: %s", e.Args[0])
		}
		fid := f.T
		if f.Fn != nil {
			fid = env.x.funcID(f)
		}
		sigT, ok := f.Ty.Underlying().(*types.Signature)
		if !ok || sigT.Results().Len() != 1 {
			env.errf("apply: function with one result expected")
		}
		var args []SV
		for _, a := range e.Args[1:] {
			args = append(args, env.eval(a))
		}
		return env.x.pureCallResult(env.cur, fid, sigString(f.Ty), sigT.Results().At(0).Type(), args)
	case "ext":
		// an uninterpreted predicate standing for a dependency (assumed contract, DESIGN 4.2)
		if len(e.Args) < 1 || e.Args[0].Kind != "str" {
			env.errf("ext(\"name\", args...)")
		}
		var ts []*Term
		for _, a := range e.Args[1:] {
			ts = append(ts, env.evalInt(a))
		}
		return boolSV(App("ext."+e.Args[0].Str, SBool, ts...))
	case "bytesUnchanged":
		// no element of any byte array that existed in the old state has changed
		if env.old == nil {
			env.errf("bytesUnchanged() needs an old state")
		}
		env.x.registerKey("E:byte", SArr2)
		cur := env.x.heapGet(env.cur, "E:byte", SArr2)
		old := env.x.heapGet(env.old, "E:byte", SArr2)
		*env.qn++
		r := Var(fmt.Sprintf("r!q%d", *env.qn), SInt)
		return boolSV(Forall([]*Term{r}, Implies(And(Le(IntC(0), r), Lt(r, env.wmOld)), Eq(Select(cur, r), Select(old, r)))))
	case "otherArraysUnchanged":
		// every byte array other than the backing array of the argument is as it was in the old state
		a := env.eval(e.Args[0])
		if env.old == nil || a.K != KSeq {
			env.errf("otherArraysUnchanged(slice) needs an old state")
		}
		env.x.registerKey("E:byte", SArr2)
		cur := env.x.heapGet(env.cur, "E:byte", SArr2)
		old := env.x.heapGet(env.old, "E:byte", SArr2)
		*env.qn++
		r := Var(fmt.Sprintf("r!q%d", *env.qn), SInt)
		return boolSV(Forall([]*Term{r}, Implies(And(Ne(r, a.Id), Lt(r, env.wmOld)), Eq(Select(cur, r), Select(old, r)))))
	case "framed":
		// the frame condition of the enclosing function's modifies clause, for the current heap against the entry heap
		x := env.x
		if x.fc == nil || env.old == nil {
			env.errf("framed() needs a function contract and an old state")
		}
		lic := x.prog.modifiesSpec(x, x.fn, x.fc)
		var keys []string
		for k := range env.cur {
			keys = append(keys, k)
		}
		sort.Strings(keys)
		var cs []*Term
		for _, k := range keys {
			cur := env.cur[k]
			init := Var("H0."+k, cur.Sort)
			if cur.Op == "var" && cur.Name == init.Name {
				continue
			}
			if l := lic[k]; l != nil && l.whole {
				continue
			}
			cs = append(cs, x.frameFormula(k, cur, init, lic[k], env.wmOld))
		}
		return boolSV(And(cs...))
	case "upd":
		// upd(a, i, v): the ghost array a with a[i] = v (v a bool is stored as 0/1)
		a := env.eval(e.Args[0])
		if a.K != KSeq || a.Arr == nil {
			env.errf("upd: ghost array expected in %s", e)
		}
		i := env.evalInt(e.Args[1])
		v := env.eval(e.Args[2])
		vt := v.T
		if v.K == KBool {
			vt = Ite(v.T, IntC(1), IntC(0))
		}
		n := a
		n.Arr = Store(a.Arr, Add(a.Off, i), vt)
		return n
	case "prev", "outer":
		src := env.prev
		if e.Str == "outer" {
			src = env.outer
		}
		if src == nil {
			env.errf("%s() is not available here (prev: loop step clauses; outer: invariants of a loop nested in a loop that has step clauses): %s", e.Str, e)
		}
		n := *src
		n.qn = env.qn
		// bound variables of enclosing quantifiers stay visible
		n.vars = map[string]SV{}
		for k, v := range src.vars {
			n.vars[k] = v
		}
		for k, v := range env.vars {
			if _, shadow := n.vars[k]; !shadow {
				n.vars[k] = v
			}
		}
		return n.eval(e.Args[0])
	case "cast":
		// cast("Type", p): the unsafe.Pointer / pointer p viewed as *Type (node.go stores *Block / *Inline in an unsafe.Pointer)
		if len(e.Args) != 2 || e.Args[0].Kind != "str" {
			env.errf("cast(\"Type\", pointer)")
		}
		pv := env.eval(e.Args[1])
		if pv.K != KRef || pv.T == nil {
			env.errf("cast: not a heap pointer: %s", e.Args[1])
		}
		var found types.Type
		for _, pk := range env.x.prog.pkgs {
			if obj := pk.Types.Scope().Lookup(e.Args[0].Str); obj != nil {
				if tn, ok := obj.(*types.TypeName); ok {
					found = tn.Type()
				}
			}
		}
		if found == nil {
			env.errf("cast: unknown type %s", e.Args[0].Str)
		}
		return refSV(pv.T, types.NewPointer(found))
	case "atomconst":
		// the numeric value of an x/net/html/atom constant, by name
		if len(e.Args) != 1 || e.Args[0].Kind != "str" {
			env.errf("atomconst(\"name\")")
		}
		return intSV(IntC(int64(atomByName(e.Args[0].Str))), types.Typ[types.Uint32])
	case "firstrune", "lastrune":
		// the rune utf8.DecodeRune / utf8.DecodeLastRune returns for the sequence (assumed dependency: the same
		// uninterpreted function the executor uses for the call)
		sq := env.resolveSeq(env.eval(e.Args[0]))
		nm := "ext.utf8.DecodeRune"
		if e.Str == "lastrune" {
			nm = "ext.utf8.DecodeLastRune"
		}
		return intSV(App(nm, SInt, sq.Arr, sq.Off, sq.Len), types.Typ[types.Int32])
	case "seqvalof":
		// the contents of a byte sequence or string as one abstract value (equal contents, equal values)
		sv := env.eval(e.Args[0])
		if sv.K != KSeq {
			env.errf("seqvalof: not a sequence: %s", e.Args[0])
		}
		return intSV(env.x.seqVal(env.cur, sv), types.Typ[types.Int])
	case "casefold":
		// Unicode case folding of an abstract sequence value (assumed dependency golang.org/x/text/cases)
		return intSV(App("ext.casefold", SInt, env.evalInt(e.Args[0])), types.Typ[types.Int])
	case "haskey", "mapget":
		// haskey(m, k): k is a key of the map; mapget(m, k): the value stored (zero value when absent)
		mv := env.eval(e.Args[0])
		if mv.K != KRef || mv.T == nil || mapTypeOf(mv.Ty) == nil {
			env.errf("%s: not a map: %s", e.Str, e.Args[0])
		}
		kv := env.eval(e.Args[1])
		key := env.x.mapKeyTerm(env.cur, kv, mapTypeOf(mv.Ty).Key())
		val, has := env.x.mapRead(env.cur, mv.Ty, mv.T, key)
		if e.Str == "haskey" {
			return boolSV(has)
		}
		return env.inv(val)
	case "isstring":
		a := env.eval(e.Args[0])
		return boolSV(BoolC(a.K == KSeq && a.Ty != nil && isStringType(a.Ty)))
	case "atomname":
		// the name of an x/net/html/atom.Atom (assumed dependency; constants are looked up in the real table)
		a := env.evalInt(e.Args[0])
		return atomString(a, types.Typ[types.String])
	case "lit":
		// lit(s, "a", "b", ...): the sequence s is one of the literals
		if len(e.Args) < 2 {
			env.errf("lit(seq, literals...)")
		}
		sq := env.resolveSeq(env.eval(e.Args[0]))
		var ds []*Term
		for _, a := range e.Args[1:] {
			if a.Kind != "str" {
				env.errf("lit: literal expected in %s", e)
			}
			cs := []*Term{Eq(sq.Len, IntC(int64(len(a.Str))))}
			for i := 0; i < len(a.Str); i++ {
				cs = append(cs, Eq(Select(sq.Arr, Add(sq.Off, IntC(int64(i)))), IntC(int64(a.Str[i]))))
			}
			ds = append(ds, And(cs...))
		}
		return boolSV(Or(ds...))
	case "isnil":
		a := env.eval(e.Args[0])
		if a.K == KSeq {
			return boolSV(Eq(a.Id, IntC(0)))
		}
		if a.K == KRef && a.Loc != nil {
			return boolSV(tFalse) // the address of a variable or field is never nil
		}
		return boolSV(Eq(a.T, IntC(0)))
	}
	if sf, ok := env.x.prog.contracts.Specs[e.Str]; ok {
		if len(e.Args) != len(sf.Params) {
			env.errf("spec %s: %d arguments for %d parameters", sf.Name, len(e.Args), len(sf.Params))
		}
		args := make([]SV, len(e.Args))
		for i, a := range e.Args {
			args[i] = env.eval(a)
			if isSeqType(sf.Params[i].Type) {
				args[i] = env.resolveSeq(args[i])
			} else if args[i].K == KSeq && sf.Recursive {
				// (a macro takes a slice of any element type as it is: its body indexes it like any other slice)
				env.errf("spec %s: sequence passed for %s parameter %s", sf.Name, sf.Params[i].Type, sf.Params[i].Name)
			}
		}
		if !sf.Recursive {
			// a non-recursive spec is a macro: its body may read the heap of the calling context
			n := *env
			n.vars = map[string]SV{}
			for i, p := range sf.Params {
				n.vars[p.Name] = args[i]
			}
			n.entryVars = nil
			return n.eval(sf.Body)
		}
		var flat []*Term
		for i, a := range args {
			if isSeqType(sf.Params[i].Type) {
				flat = append(flat, a.Arr, a.Off)
				if sf.UsesLen[i] {
					flat = append(flat, a.Len)
				}
			} else {
				if a.T == nil {
					env.errf("spec %s: bad argument %d", sf.Name, i)
				}
				flat = append(flat, a.T)
			}
		}
		t := App(specPrefix+sf.Name, specSort(sf.Result), flat...)
		if sf.Result == "bool" {
			return boolSV(t)
		}
		return intSV(t, it)
	}
	if lm, ok := env.x.prog.contracts.Lemmas[e.Str]; ok {
		// a lemma application used as a formula: its instance
		args := make([]SV, len(e.Args))
		for i, a := range e.Args {
			args[i] = env.eval(a)
			if isSeqType(lm.Params[i].Type) {
				args[i] = env.resolveSeq(args[i])
			}
		}
		return boolSV(env.x.lemmaInstance(lm, args, env.qn))
	}
	env.errf("unknown function %q in contract", e.Str)
	return SV{}
}

// evalSpecBody evaluates the body of a spec function with parameters bound.
func (x *Exec) evalSpecBody(sf *SpecFunc, args []SV, qn *int) SV {
	env := &CEnv{x: x, vars: map[string]SV{}, qn: qn}
	for i, p := range sf.Params {
		env.vars[p.Name] = args[i]
	}
	v := env.eval(sf.Body)
	return v
}

func (x *Exec) paramSVsFromFlat(params []ParamDecl, flat []*Term, usesLen []bool) []SV {
	var out []SV
	i := 0
	for pi, p := range params {
		if isSeqType(p.Type) {
			if usesLen == nil || usesLen[pi] {
				out = append(out, SV{K: KSeq, Arr: flat[i], Off: flat[i+1], Len: flat[i+2], Cap: flat[i+2]})
				i += 3
			} else {
				// the body never looks at the length
				out = append(out, SV{K: KSeq, Arr: flat[i], Off: flat[i+1], Len: App("nolen", SInt), Cap: App("nolen", SInt)})
				i += 2
			}
		} else if p.Type == "bool" {
			out = append(out, boolSV(flat[i]))
			i++
		} else {
			out = append(out, intSV(flat[i], types.Typ[types.Int]))
			i++
		}
	}
	return out
}

// specDefInstance: f(args) = body[args]
func (x *Exec) specDefInstance(sf *SpecFunc, app *Term, qn *int) *Term {
	args := x.paramSVsFromFlat(sf.Params, app.Args, sf.UsesLen)
	body := x.evalSpecBody(sf, args, qn)
	return Eq(app, body.T)
}

func (x *Exec) lemmaInstance(lm *Lemma, args []SV, qn *int) *Term {
	env := &CEnv{x: x, vars: map[string]SV{}, qn: qn}
	for i, p := range lm.Params {
		env.vars[p.Name] = args[i]
	}
	var req, ens []*Term
	for _, r := range lm.Requires {
		req = append(req, env.evalBool(r.Expr))
	}
	for _, r := range lm.Ensures {
		ens = append(ens, env.evalBool(r.Expr))
	}
	return Implies(And(req...), And(ens...))
}

// ---- instantiation of spec definitions and triggered lemmas over a VC ----

func collectSpecApps(t *Term, bound map[string]bool, out map[string]*Term) {
	switch t.Op {
	case "app":
		for _, a := range t.Args {
			collectSpecApps(a, bound, out)
		}
		if strings.HasPrefix(t.Name, specPrefix) && !mentionsBound(t, bound) {
			out[t.String()] = t
		}
	case "forall", "exists":
		nb := map[string]bool{}
		for k := range bound {
			nb[k] = true
		}
		for _, b := range t.Bound {
			nb[b.Name] = true
		}
		collectSpecApps(t.Args[0], nb, out)
	}
}

func mentionsBound(t *Term, bound map[string]bool) bool {
	if len(bound) == 0 {
		return false
	}
	switch t.Op {
	case "var":
		return bound[t.Name]
	case "app":
		for _, a := range t.Args {
			if mentionsBound(a, bound) {
				return true
			}
		}
	case "forall", "exists":
		return mentionsBound(t.Args[0], bound)
	}
	return false
}

// instantiate returns extra assumptions: definitional unfoldings of recursive
// spec functions at the ground applications occurring in the VC (to the given
// depth) and instances of triggered lemmas.
func (x *Exec) instantiate(assumes []*Term, goal *Term, depth int) []*Term {
	cs := x.prog.contracts
	seen := map[string]bool{}
	var extra []*Term
	qn := new(int)
	*qn = 100000
	frontier := map[string]*Term{}
	for _, a := range assumes {
		collectSpecApps(a, nil, frontier)
	}
	if goal != nil {
		collectSpecApps(goal, nil, frontier)
	}
	total := 0
	for round := 0; round <= depth && len(frontier) > 0; round++ {
		keys := make([]string, 0, len(frontier))
		for k := range frontier {
			keys = append(keys, k)
		}
		sort.Strings(keys)
		next := map[string]*Term{}
		for _, k := range keys {
			if seen[k] {
				continue
			}
			seen[k] = true
			app := frontier[k]
			name := strings.TrimPrefix(app.Name, specPrefix)
			sf := cs.Specs[name]
			if sf == nil {
				continue
			}
			total++
			if total > 600 {
				break
			}
			var insts []*Term
			if round < depth {
				insts = append(insts, x.specDefInstance(sf, app, qn))
			}
			for _, lm := range x.prog.lemmasByTrigger[name] {
				if x.currentLemma == lm.Name {
					continue // a lemma is not available in its own proof except as the explicit IH
				}
				if !x.lemmaAvailable(lm) {
					continue
				}
				if inst := x.triggerInstance(lm, app, qn); inst != nil {
					insts = append(insts, inst)
				}
			}
			for _, in := range insts {
				extra = append(extra, in)
				collectSpecApps(in, nil, next)
			}
		}
		frontier = next
	}
	return extra
}

// triggerInstance matches the lemma trigger f(p1,...,pn) against app.
func (x *Exec) triggerInstance(lm *Lemma, app *Term, qn *int) *Term {
	tr := lm.Trigger
	sf := x.prog.contracts.Specs[tr.Str]
	if sf == nil || len(tr.Args) != len(sf.Params) {
		return nil
	}
	formal := x.paramSVsFromFlat(sf.Params, app.Args, sf.UsesLen)
	bind := map[string]SV{}
	for i, a := range tr.Args {
		if a.Kind != "id" {
			return nil
		}
		bind[a.Str] = formal[i]
	}
	args := make([]SV, len(lm.Params))
	for i, p := range lm.Params {
		v, ok := bind[p.Name]
		if !ok {
			return nil
		}
		args[i] = v
	}
	return x.lemmaInstance(lm, args, qn)
}
