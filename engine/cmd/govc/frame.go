package main

type frameViolation struct {
	Name string
	Desc string
	Pos  string
}

func (p *Program) frameCheck() []frameViolation { return nil }
