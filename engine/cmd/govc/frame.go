package main

// Frame (modifies-clause) checking, structural: for each public entry point E a
// whole-program, field-insensitive, flow-insensitive inclusion-based points-to
// analysis over the SSA of the functions reachable from E decides which abstract
// objects every store / in-place append / copy / map update may write.  The
// obligation is writes(F) ∩ forbidden(E) = ∅ for every reachable F, where
// forbidden(E) is taken from the property statements (DESIGN 2.6, 7.19):
// package-level variables always; for render/format/walk also the tree, the
// renderer value and Source.  No SMT solver is involved.

import (
	"fmt"
	"go/token"
	"go/types"
	"sort"
	"strings"

	"golang.org/x/tools/go/ssa"
)

type frameViolation struct {
	Name string
	Desc string
	Pos  string
}

type absObj struct {
	id    int
	kind  string // "alloc", "param", "global", "ext"
	label string
	pos   token.Pos
}

type entrySpec struct {
	key      string   // function key, e.g. "commonmark.Parse"
	readOnly []string // parameter names whose reachable memory must not be written
	group    string   // "parse" | "render" | "format" | "walk"
}

var frameEntries = []entrySpec{
	{key: "commonmark.Parse", group: "parse"},
	{key: "commonmark.NewBlockParser", group: "parse"},
	{key: "commonmark.(*BlockParser).NextBlock", group: "parse"},
	{key: "commonmark.(*InlineParser).Rewrite", readOnly: []string{"p"}, group: "parse"},
	{key: "commonmark.ReferenceMap.Extract", readOnly: []string{"source", "node"}, group: "parse"},
	{key: "commonmark.(*HTMLRenderer).Render", readOnly: []string{"r", "blocks"}, group: "render"},
	{key: "commonmark.(*HTMLRenderer).AppendBlock", readOnly: []string{"r", "block"}, group: "render"},
	{key: "commonmark.RenderHTML", readOnly: []string{"blocks", "refMap"}, group: "render"},
	{key: "format.Format", readOnly: []string{"blocks"}, group: "format"},
	{key: "commonmark.Walk", readOnly: []string{"node"}, group: "walk"},
}

type ptAnalysis struct {
	p         *Program
	objs      []*absObj
	pts       map[ssa.Value]map[int]bool
	contents  map[int]map[string]map[int]bool
	siteObj   map[ssa.Value]int
	globObj   map[*ssa.Global]int
	reach     map[*ssa.Function]bool
	order     []*ssa.Function
	changed   bool
	addrTaken map[*ssa.Function]bool
	extObj    int
	retVals   map[*ssa.Function][][]ssa.Value // per result index
	tuple     map[ssa.Value]map[int]map[int]bool
	nondet    []frameViolation
}

type writeRec struct {
	fn    *ssa.Function
	instr ssa.Instruction
	objs  map[int]bool
	what  string
}

func (a *ptAnalysis) newObj(kind, label string, pos token.Pos) int {
	o := &absObj{id: len(a.objs), kind: kind, label: label, pos: pos}
	a.objs = append(a.objs, o)
	a.contents[o.id] = map[string]map[int]bool{}
	return o.id
}

func (a *ptAnalysis) get(v ssa.Value) map[int]bool {
	switch g := v.(type) {
	case *ssa.Global:
		return map[int]bool{a.globalObj(g): true}
	case *ssa.Const, *ssa.Function, *ssa.Builtin:
		return nil
	}
	return a.pts[v]
}

func (a *ptAnalysis) globalObj(g *ssa.Global) int {
	if id, ok := a.globObj[g]; ok {
		return id
	}
	name := g.Name()
	if g.Pkg != nil {
		name = g.Pkg.Pkg.Name() + "." + name
	}
	id := a.newObj("global", name, g.Pos()) // everything reachable from a global is attributed to it (selfLoop)
	a.globObj[g] = id
	return id
}

func (a *ptAnalysis) add(v ssa.Value, objs map[int]bool) {
	if len(objs) == 0 {
		return
	}
	s := a.pts[v]
	if s == nil {
		s = map[int]bool{}
		a.pts[v] = s
	}
	for o := range objs {
		if !s[o] {
			s[o] = true
			a.changed = true
		}
	}
}

// Memory is partitioned by the static type of the pointer-like value stored
// or loaded (sound for type-safe code; node.go's unsafe.Pointer round trip
// stores and loads at type unsafe.Pointer).  A composite value (struct, array,
// tuple) is the union of its pointer-like leaf types.
func leafKeys(t types.Type) []string {
	seen := map[string]bool{}
	var out []string
	var rec func(t types.Type, depth int)
	rec = func(t types.Type, depth int) {
		if depth > 6 {
			return
		}
		switch u := t.Underlying().(type) {
		case *types.Pointer, *types.Slice, *types.Map, *types.Chan, *types.Interface, *types.Signature:
			k := types.TypeString(t, nil)
			if !seen[k] {
				seen[k] = true
				out = append(out, k)
			}
		case *types.Basic:
			if u.Kind() == types.UnsafePointer {
				if !seen["unsafe.Pointer"] {
					seen["unsafe.Pointer"] = true
					out = append(out, "unsafe.Pointer")
				}
			}
		case *types.Struct:
			for i := 0; i < u.NumFields(); i++ {
				rec(u.Field(i).Type(), depth+1)
			}
		case *types.Array:
			rec(u.Elem(), depth+1)
		case *types.Tuple:
			for i := 0; i < u.Len(); i++ {
				rec(u.At(i).Type(), depth+1)
			}
		}
	}
	rec(t, 0)
	return out
}

func (a *ptAnalysis) selfLoop(o int) bool {
	k := a.objs[o].kind
	return k == "param" || k == "global" || k == "ext"
}

func (a *ptAnalysis) addContentsT(targets map[int]bool, t types.Type, objs map[int]bool) {
	if len(objs) == 0 {
		return
	}
	keys := leafKeys(t)
	for tg := range targets {
		for _, k := range keys {
			c := a.contents[tg][k]
			if c == nil {
				c = map[int]bool{}
				a.contents[tg][k] = c
			}
			for o := range objs {
				if !c[o] {
					c[o] = true
					a.changed = true
				}
			}
		}
	}
}

func (a *ptAnalysis) loadT(ptrs map[int]bool, t types.Type) map[int]bool {
	out := map[int]bool{}
	keys := leafKeys(t)
	for p := range ptrs {
		if a.selfLoop(p) {
			out[p] = true
		}
		for _, k := range keys {
			for o := range a.contents[p][k] {
				out[o] = true
			}
		}
	}
	return out
}

func pointerLike(t types.Type) bool {
	switch u := t.Underlying().(type) {
	case *types.Pointer, *types.Slice, *types.Map, *types.Chan, *types.Interface, *types.Signature:
		return true
	case *types.Struct:
		for i := 0; i < u.NumFields(); i++ {
			if pointerLike(u.Field(i).Type()) {
				return true
			}
		}
	case *types.Array:
		return pointerLike(u.Elem())
	case *types.Tuple:
		for i := 0; i < u.Len(); i++ {
			if pointerLike(u.At(i).Type()) {
				return true
			}
		}
	case *types.Basic:
		return u.Kind() == types.UnsafePointer
	}
	return false
}

func (a *ptAnalysis) site(v ssa.Value, label string) map[int]bool {
	id, ok := a.siteObj[v]
	if !ok {
		id = a.newObj("alloc", label, v.Pos())
		a.siteObj[v] = id
	}
	return map[int]bool{id: true}
}

// candidates for a call through a function value or an interface method
func (a *ptAnalysis) dynamicCallees(c *ssa.CallCommon) []*ssa.Function {
	var out []*ssa.Function
	if c.IsInvoke() {
		for _, fn := range a.p.allFuncsIncludingSynthetic() {
			if fn.Signature.Recv() == nil || fn.Name() != c.Method.Name() {
				continue
			}
			rt := fn.Signature.Recv().Type()
			if types.Implements(rt, c.Value.Type().Underlying().(*types.Interface)) ||
				types.Implements(types.NewPointer(rt), c.Value.Type().Underlying().(*types.Interface)) {
				out = append(out, fn)
			}
		}
		return out
	}
	sig, ok := c.Value.Type().Underlying().(*types.Signature)
	if !ok {
		return nil
	}
	for fn := range a.addrTaken {
		s2 := fn.Signature
		if s2.Recv() != nil {
			continue
		}
		if types.Identical(types.NewSignatureType(nil, nil, nil, s2.Params(), s2.Results(), s2.Variadic()),
			types.NewSignatureType(nil, nil, nil, sig.Params(), sig.Results(), sig.Variadic())) {
			out = append(out, fn)
		}
	}
	sort.Slice(out, func(i, j int) bool { return out[i].String() < out[j].String() })
	return out
}

func (p *Program) allFuncsIncludingSynthetic() []*ssa.Function {
	return p.allFuncs
}

// externWrites: which argument indices an external function writes through, and
// whether its result may alias its arguments.
func externEffect(name string) (writes []int, aliasArgs bool) {
	switch {
	case strings.HasPrefix(name, "(*strings.Builder)."), strings.HasPrefix(name, "(*bytes.Buffer)."):
		return []int{0}, false
	case name == "unicode/utf8.EncodeRune":
		return []int{0}, false
	case name == "unicode/utf8.AppendRune", strings.HasPrefix(name, "strconv.Append"):
		return []int{0}, true
	case strings.HasPrefix(name, "bytes.Trim"), name == "bytes.TrimSpace", name == "bytes.Fields":
		return nil, true
	}
	return nil, false
}

func (a *ptAnalysis) transfer(fn *ssa.Function, writes *[]writeRec, record bool) {
	for _, b := range fn.Blocks {
		for _, in := range b.Instrs {
			switch i := in.(type) {
			case *ssa.Alloc:
				a.add(i, a.site(i, "alloc "+i.Comment))
			case *ssa.MakeSlice:
				a.add(i, a.site(i, "make slice"))
			case *ssa.MakeMap:
				a.add(i, a.site(i, "make map"))
			case *ssa.MakeChan:
				a.add(i, a.site(i, "make chan"))
			case *ssa.MakeClosure:
				s := a.site(i, "closure")
				a.add(i, s)
				f := i.Fn.(*ssa.Function)
				for k, bnd := range i.Bindings {
					a.add(f.FreeVars[k], a.get(bnd))
					a.addContentsT(s, bnd.Type(), a.get(bnd))
				}
				a.markReach(f)
			case *ssa.MakeInterface:
				a.add(i, a.get(i.X))
			case *ssa.ChangeType:
				a.add(i, a.get(i.X))
			case *ssa.ChangeInterface:
				a.add(i, a.get(i.X))
			case *ssa.Convert:
				if pointerLike(i.Type()) && pointerLike(i.X.Type()) {
					if typeKind(i.Type()) == KSeq && typeKind(i.X.Type()) == KSeq && !types.Identical(i.Type().Underlying(), i.X.Type().Underlying()) {
						a.add(i, a.site(i, "conversion copy"))
					} else {
						a.add(i, a.get(i.X))
					}
				} else if pointerLike(i.Type()) {
					a.add(i, a.site(i, "conversion"))
				}
			case *ssa.Slice:
				a.add(i, a.get(i.X))
			case *ssa.FieldAddr:
				a.add(i, a.get(i.X))
			case *ssa.IndexAddr:
				a.add(i, a.get(i.X))
			case *ssa.Field:
				a.add(i, a.get(i.X))
			case *ssa.Index:
				a.add(i, a.get(i.X))
			case *ssa.Extract:
				if tp, ok := a.tuple[i.Tuple]; ok {
					a.add(i, tp[i.Index])
				}
				a.add(i, a.get(i.Tuple))
			case *ssa.Phi:
				for _, e := range i.Edges {
					a.add(i, a.get(e))
				}
			case *ssa.TypeAssert:
				a.add(i, a.get(i.X))
			case *ssa.UnOp:
				if i.Op == token.MUL {
					if pointerLike(i.Type()) {
						a.add(i, a.loadT(a.get(i.X), i.Type()))
					}
				} else {
					a.add(i, a.get(i.X))
				}
			case *ssa.Lookup:
				if pointerLike(i.Type()) {
					a.add(i, a.loadT(a.get(i.X), i.Type()))
				}
			case *ssa.Range:
				a.add(i, a.get(i.X))
				if _, isMap := i.X.Type().Underlying().(*types.Map); isMap && record {
					a.nondet = append(a.nondet, frameViolation{Name: "det:range-over-map@" + a.p.funcName(fn), Desc: "iteration over a map (order is not deterministic)", Pos: a.p.posStr(i.Pos())})
				}
			case *ssa.Next:
				if pointerLike(i.Type()) {
					a.add(i, a.loadT(a.get(i.Iter), i.Type()))
				}
			case *ssa.BinOp:
				if pointerLike(i.Type()) { // string concatenation
					a.add(i, a.site(i, "concat"))
				}
			case *ssa.Store:
				if pointerLike(i.Val.Type()) {
					a.addContentsT(a.get(i.Addr), i.Val.Type(), a.get(i.Val))
				}
				if record {
					*writes = append(*writes, writeRec{fn: fn, instr: i, objs: a.get(i.Addr), what: "store"})
				}
			case *ssa.MapUpdate:
				a.addContentsT(a.get(i.Map), i.Key.Type(), a.get(i.Key))
				a.addContentsT(a.get(i.Map), i.Value.Type(), a.get(i.Value))
				if record {
					*writes = append(*writes, writeRec{fn: fn, instr: i, objs: a.get(i.Map), what: "map update"})
				}
			case *ssa.Send:
				if record {
					*writes = append(*writes, writeRec{fn: fn, instr: i, objs: a.get(i.Chan), what: "channel send"})
				}
			case *ssa.Go:
				if record {
					a.nondet = append(a.nondet, frameViolation{Name: "det:go@" + a.p.funcName(fn), Desc: "goroutine started", Pos: a.p.posStr(i.Pos())})
				}
				a.callEffects(fn, i, i.Common(), nil, writes, record)
			case *ssa.Defer:
				a.callEffects(fn, i, i.Common(), nil, writes, record)
			case *ssa.Call:
				a.callEffects(fn, i, i.Common(), i, writes, record)
			case *ssa.Return:
			}
		}
	}
}

func (a *ptAnalysis) markReach(f *ssa.Function) {
	if f == nil || a.reach[f] {
		return
	}
	if !a.p.inScope(f) || len(f.Blocks) == 0 {
		return
	}
	a.reach[f] = true
	a.order = append(a.order, f)
	a.changed = true
}

func (a *ptAnalysis) bindCall(callee *ssa.Function, args []ssa.Value, result ssa.Value) {
	a.markReach(callee)
	for k, prm := range callee.Params {
		if k < len(args) {
			a.add(prm, a.get(args[k]))
		}
	}
	if result != nil && pointerLike(result.Type()) {
		_, isTuple := result.Type().(*types.Tuple)
		for idx, rvs := range a.retVals[callee] {
			for _, rv := range rvs {
				if !isTuple {
					a.add(result, a.get(rv))
					continue
				}
				tp := a.tuple[result]
				if tp == nil {
					tp = map[int]map[int]bool{}
					a.tuple[result] = tp
				}
				if tp[idx] == nil {
					tp[idx] = map[int]bool{}
				}
				for o := range a.get(rv) {
					if !tp[idx][o] {
						tp[idx][o] = true
						a.changed = true
					}
				}
			}
		}
	}
}

func (a *ptAnalysis) callEffects(fn *ssa.Function, in ssa.Instruction, c *ssa.CallCommon, result ssa.Value, writes *[]writeRec, record bool) {
	if b, ok := c.Value.(*ssa.Builtin); ok {
		switch b.Name() {
		case "append":
			s := a.site(in.(ssa.Value), "append")
			if result != nil {
				a.add(result, a.get(c.Args[0]))
				a.add(result, s)
				et := elemOrSelf(c.Args[0].Type())
				if len(c.Args) > 1 && pointerLike(et) {
					a.addContentsT(a.get(result), et, a.loadT(a.get(c.Args[1]), et))
				}
				if pointerLike(et) {
					a.addContentsT(s, et, a.loadT(a.get(c.Args[0]), et))
				}
			}
			if record {
				*writes = append(*writes, writeRec{fn: fn, instr: in, objs: a.get(c.Args[0]), what: "append (in place when capacity allows)"})
			}
		case "copy":
			if et := elemOrSelf(c.Args[0].Type()); pointerLike(et) {
				a.addContentsT(a.get(c.Args[0]), et, a.loadT(a.get(c.Args[1]), et))
			}
			if record {
				*writes = append(*writes, writeRec{fn: fn, instr: in, objs: a.get(c.Args[0]), what: "copy"})
			}
		case "delete":
			if record {
				*writes = append(*writes, writeRec{fn: fn, instr: in, objs: a.get(c.Args[0]), what: "delete"})
			}
		case "ssa:wrapnilchk":
			if result != nil {
				a.add(result, a.get(c.Args[0]))
			}
		}
		return
	}
	var args []ssa.Value
	if c.IsInvoke() {
		args = append([]ssa.Value{c.Value}, c.Args...)
	} else {
		args = c.Args
	}
	callee := c.StaticCallee()
	if callee != nil {
		if a.p.inScope(callee) && len(callee.Blocks) > 0 {
			if mc, ok := c.Value.(*ssa.MakeClosure); ok {
				_ = mc
			}
			a.bindCall(callee, args, result)
			return
		}
		// external function
		name := callee.String()
		wr, alias := externEffect(name)
		for _, k := range wr {
			if k < len(args) && record {
				*writes = append(*writes, writeRec{fn: fn, instr: in, objs: a.get(args[k]), what: "call " + name})
			}
		}
		if result != nil && pointerLike(result.Type()) {
			a.add(result, a.site(result, "result of "+name))
			if alias {
				for _, ar := range args {
					a.add(result, a.get(ar))
				}
			}
		}
		return
	}
	// dynamic: in-package candidates plus an unknown (user-supplied) implementation
	for _, cand := range a.dynamicCallees(c) {
		cargs := args
		a.bindCall(cand, cargs, result)
	}
	if result != nil && pointerLike(result.Type()) {
		// a user callback may return anything it was given or anything of its own
		a.add(result, map[int]bool{a.extObj: true})
		for _, ar := range args {
			a.add(result, a.get(ar))
		}

	}
}

func elemOrSelf(t types.Type) types.Type {
	if e := elemTypeOf(t); e != nil {
		return e
	}
	return t
}

func (p *Program) funcName(f *ssa.Function) string {
	if k, ok := p.funcKeys[f]; ok {
		return k
	}
	return f.String()
}

func (p *Program) posStr(pos token.Pos) string {
	if !pos.IsValid() {
		return ""
	}
	ps := p.fset.Position(pos)
	return fmt.Sprintf("%s:%d", shortFile(ps.Filename), ps.Line)
}

// frameAnalyze runs the analysis for one entry point.
func (p *Program) frameAnalyze(es entrySpec) (viol []frameViolation, nFuncs int, nWrites int) {
	entry := p.funcs[es.key]
	if entry == nil {
		return []frameViolation{{Name: "frame:" + es.key + "/missing", Desc: "entry point not found"}}, 0, 0
	}
	a := &ptAnalysis{p: p, pts: map[ssa.Value]map[int]bool{}, contents: map[int]map[string]map[int]bool{}, siteObj: map[ssa.Value]int{},
		globObj: map[*ssa.Global]int{}, reach: map[*ssa.Function]bool{}, addrTaken: map[*ssa.Function]bool{}, retVals: map[*ssa.Function][][]ssa.Value{}, tuple: map[ssa.Value]map[int]map[int]bool{}}
	a.extObj = a.newObj("ext", "value supplied by a user callback", token.NoPos)
	// functions whose address is taken anywhere in the two packages, and return values
	for _, f := range p.allFuncs {
		for _, b := range f.Blocks {
			for _, in := range b.Instrs {
				if r, ok := in.(*ssa.Return); ok {
					for idx, rv := range r.Results {
						for len(a.retVals[f]) <= idx {
							a.retVals[f] = append(a.retVals[f], nil)
						}
						a.retVals[f][idx] = append(a.retVals[f][idx], rv)
					}
				}
				for _, op := range in.Operands(nil) {
					if op == nil || *op == nil {
						continue
					}
					if g, ok := (*op).(*ssa.Function); ok {
						if call, isCall := in.(ssa.CallInstruction); isCall && call.Common().Value == g {
							continue
						}
						a.addrTaken[g] = true
					}
					if mc, ok := (*op).(*ssa.MakeClosure); ok {
						a.addrTaken[mc.Fn.(*ssa.Function)] = true
					}
				}
				if mc, ok := in.(*ssa.MakeClosure); ok {
					a.addrTaken[mc.Fn.(*ssa.Function)] = true
				}
			}
		}
	}
	// package initialisers store closures into the global tables
	for _, sp := range p.ssaPkgs {
		if init := sp.Func("init"); init != nil {
			for _, b := range init.Blocks {
				for _, in := range b.Instrs {
					for _, op := range in.Operands(nil) {
						if op != nil && *op != nil {
							if g, ok := (*op).(*ssa.Function); ok {
								a.addrTaken[g] = true
							}
						}
					}
				}
			}
		}
	}
	readOnly := map[int]string{}
	for _, prm := range entry.Params {
		if !pointerLike(prm.Type()) {
			continue
		}
		id := a.newObj("param", es.key+" parameter "+prm.Name(), prm.Pos())
		a.add(prm, map[int]bool{id: true})
		for _, ro := range es.readOnly {
			if ro == prm.Name() {
				readOnly[id] = prm.Name()
			}
		}
	}
	a.markReach(entry)
	for iter := 0; iter < 200; iter++ {
		a.changed = false
		for k := 0; k < len(a.order); k++ {
			a.transfer(a.order[k], nil, false)
		}
		if !a.changed {
			break
		}
	}
	var writes []writeRec
	for _, f := range a.order {
		a.transfer(f, &writes, true)
	}
	seen := map[string]bool{}
	for _, w := range writes {
		for o := range w.objs {
			ob := a.objs[o]
			var name, desc string
			switch {
			case ob.kind == "global":
				// init-time stores happen in the package initialiser, which is not reachable from an entry point
				name = fmt.Sprintf("frame:%s/writes-global:%s@%s", es.key, ob.label, p.funcName(w.fn))
				desc = fmt.Sprintf("%s writes package-level state %s (%s)", p.funcName(w.fn), ob.label, w.what)
			case ob.kind == "param" && readOnly[o] != "":
				name = fmt.Sprintf("frame:%s/writes-readonly:%s@%s", es.key, readOnly[o], p.funcName(w.fn))
				desc = fmt.Sprintf("%s may write memory reachable from %s, which %s must leave untouched (%s)", p.funcName(w.fn), ob.label, es.key, w.what)
			default:
				continue
			}
			if seen[name] {
				continue
			}
			seen[name] = true
			viol = append(viol, frameViolation{Name: name, Desc: desc, Pos: p.posStr(w.instr.Pos())})
		}
	}
	for _, nd := range a.nondet {
		n := "frame:" + es.key + "/" + nd.Name
		if !seen[n] {
			seen[n] = true
			viol = append(viol, frameViolation{Name: n, Desc: nd.Desc, Pos: nd.Pos})
		}
	}
	sort.Slice(viol, func(i, j int) bool { return viol[i].Name < viol[j].Name })
	return viol, len(a.order), len(writes)
}

type frameSummary struct {
	Entry     string
	Functions int
	Writes    int
	Viol      []frameViolation
}

func (p *Program) frameCheckGroups(groups map[string]bool) []frameSummary {
	var out []frameSummary
	for _, es := range frameEntries {
		if groups != nil && !groups[es.group] {
			continue
		}
		v, nf, nw := p.frameAnalyze(es)
		out = append(out, frameSummary{Entry: es.key, Functions: nf, Writes: nw, Viol: v})
	}
	return out
}

func (p *Program) frameCheck() []frameViolation {
	var out []frameViolation
	for _, s := range p.frameCheckGroups(nil) {
		out = append(out, s.Viol...)
	}
	return out
}
