package main

// Assumed contracts of functions outside the two packages (DESIGN 4.2), and
// the pieces of the memory model for maps, interfaces and string iteration.

import (
	"fmt"
	"go/types"
	"strings"

	"golang.org/x/tools/go/ssa"
)

func fullName(f *ssa.Function) string {
	if f.Pkg != nil && f.Signature.Recv() == nil {
		return f.Pkg.Pkg.Path() + "." + f.Name()
	}
	return f.String()
}

// externMods: heap keys an external function may modify.
func externMods(f *ssa.Function) (keys []string, allocs bool, known bool) {
	switch fullName(f) {
	case "bytes.IndexAny", "bytes.IndexByte", "bytes.ContainsRune", "bytes.Contains", "bytes.HasPrefix", "bytes.Equal",
		"strings.IndexByte", "strings.ContainsRune", "strings.HasPrefix", "strings.HasSuffix", "strings.Contains",
		"unicode/utf8.DecodeRune", "unicode/utf8.DecodeLastRune", "unicode/utf8.DecodeRuneInString", "unicode/utf8.RuneLen",
		"unicode.Is", "unicode.In", "unicode.IsSpace", "unicode.IsPunct", "unicode/utf8.RuneStart", "unicode/utf8.FullRune":
		return nil, false, true
	case "bytes.TrimLeft", "bytes.TrimRight", "bytes.TrimSpace", "strings.TrimSpace", "strings.Trim", "strings.TrimLeft", "strings.TrimRight",
		"strings.LastIndexFunc", "strings.IndexFunc", "strings.IndexAny", "strings.LastIndexByte", "strings.LastIndex", "strings.Index":
		return nil, false, true
	case "(*strings.Builder).Grow", "(*strings.Builder).Len":
		return nil, false, true
	case "(*strings.Builder).WriteByte", "(*strings.Builder).WriteString", "(*strings.Builder).WriteRune", "(*strings.Builder).Write":
		return []string{"E:byte", "F:strings.Builder.buf#id", "F:strings.Builder.buf#off", "F:strings.Builder.buf#len", "F:strings.Builder.buf#cap"}, true, true
	case "(*strings.Builder).String":
		return []string{"S:byte"}, true, true
	case "unicode/utf8.EncodeRune":
		return []string{"E:byte"}, false, true
	case "fmt.Errorf", "fmt.Sprintf", "errors.New", "strings.Repeat", "strings.ToLower", "html.EscapeString", "html.UnescapeString",
		"strings.Fields", "strconv.Itoa":
		return []string{"S:byte"}, true, true
	case "strconv.AppendInt":
		return []string{"E:byte"}, true, true
	case "(golang.org/x/net/html/atom.Atom).String", "golang.org/x/net/html/atom.Lookup", "golang.org/x/text/cases.Fold", "bytes.Trim":
		return nil, false, true
	case "(golang.org/x/text/cases.Caser).String":
		return []string{"S:byte"}, true, true
	}
	return nil, false, false
}

func (x *Exec) byteAt(st *State, s SV, i *Term) *Term {
	if s.Arr != nil {
		return Select(s.Arr, Add(s.Off, i))
	}
	key := "E:byte"
	if isStringType(s.Ty) {
		key = "S:byte"
	}
	x.registerKey(key, SArr2)
	return Select(Select(x.heapGet(st.heap, key, SArr2), s.Id), Add(s.Off, i))
}

func isStringType(t types.Type) bool {
	if t == nil {
		return false
	}
	b, ok := t.Underlying().(*types.Basic)
	return ok && b.Info()&types.IsString != 0
}

func (x *Exec) inCharSet(c *Term, set string) *Term {
	var ds []*Term
	for i := 0; i < len(set); i++ {
		if set[i] >= 0x80 {
			x.fail("non-ASCII character set in extern contract")
		}
		ds = append(ds, Eq(c, IntC(int64(set[i]))))
	}
	return Or(ds...)
}

func (x *Exec) externCall(st *State, c *ssa.Call, f *ssa.Function, args []SV) SV {
	name := fullName(f)
	it := types.Typ[types.Int]
	switch name {
	case "bytes.IndexAny":
		set, ok := x.prog.constOf(args[1])
		if !ok {
			x.fail("bytes.IndexAny with non-constant set")
		}
		s := args[0]
		r := x.freshOf(st, it, "IndexAny")
		k := Var(x.freshName("k!ia"), SInt)
		st.assume(And(Le(IntC(-1), r.T), Lt(r.T, s.Len)))
		st.assume(Implies(Ge(r.T, IntC(0)), x.inCharSet(x.byteAt(st, s, r.T), set)))
		bound := Ite(Ge(r.T, IntC(0)), r.T, s.Len)
		st.assume(Forall([]*Term{k}, Implies(And(Le(IntC(0), k), Lt(k, bound)), Not(x.inCharSet(x.byteAt(st, s, k), set)))))
		return r
	case "bytes.IndexByte", "strings.IndexByte":
		s := args[0]
		b := args[1].T
		r := x.freshOf(st, it, "IndexByte")
		k := Var(x.freshName("k!ib"), SInt)
		st.assume(And(Le(IntC(-1), r.T), Lt(r.T, s.Len)))
		st.assume(Implies(Ge(r.T, IntC(0)), Eq(x.byteAt(st, s, r.T), b)))
		bound := Ite(Ge(r.T, IntC(0)), r.T, s.Len)
		st.assume(Forall([]*Term{k}, Implies(And(Le(IntC(0), k), Lt(k, bound)), Ne(x.byteAt(st, s, k), b))))
		return r
	case "unicode.Is", "unicode.In", "unicode.IsSpace", "unicode.IsPunct":
		// uninterpreted, pure predicates on the rune (and the table arguments)
		var ts []*Term
		for _, a := range args {
			if a.K == KInt {
				ts = append(ts, a.T)
			}
		}
		tag := name
		for _, a := range c.Call.Args {
			if u, ok := a.(*ssa.UnOp); ok {
				if g, ok := u.X.(*ssa.Global); ok {
					tag += "." + g.Name()
				}
			} else if g, ok := a.(*ssa.Global); ok {
				tag += "." + g.Name()
			}
		}
		if name == "unicode.In" && len(c.Call.Args) == 2 {
			// variadic tables: recover the globals stored into the varargs array
			if sl, ok := c.Call.Args[1].(*ssa.Slice); ok {
				if al, ok := sl.X.(*ssa.Alloc); ok {
					names := map[int64]string{}
					for _, r := range *al.Referrers() {
						ia, ok := r.(*ssa.IndexAddr)
						if !ok {
							continue
						}
						idx, ok := ia.Index.(*ssa.Const)
						if !ok {
							continue
						}
						for _, r2 := range *ia.Referrers() {
							if stt, ok := r2.(*ssa.Store); ok {
								if u, ok := stt.Val.(*ssa.UnOp); ok {
									if g, ok := u.X.(*ssa.Global); ok {
										names[idx.Int64()] = g.Name()
									}
								}
							}
						}
					}
					for k := int64(0); k < int64(len(names)); k++ {
						tag += "." + names[k]
					}
				}
			}
		}
		res := App("ext."+tag, SBool, ts...)
		if tag == "unicode.Is.Zs" && len(ts) == 1 {
			// the only ASCII character of category Zs is U+0020 (Unicode character database)
			st.assume(Implies(And(Le(IntC(0), ts[0]), Le(ts[0], IntC(0x7f))), Eq(res, Eq(ts[0], IntC(0x20)))))
		}
		return boolSV(res)
	case "unicode/utf8.DecodeRune", "unicode/utf8.DecodeLastRune", "unicode/utf8.DecodeRuneInString", "unicode/utf8.DecodeLastRuneInString":
		s := args[0]
		var arr *Term
		if s.Arr != nil {
			arr = s.Arr
		} else {
			key := "E:byte"
			if isStringType(s.Ty) {
				key = "S:byte"
			}
			x.registerKey(key, SArr2)
			arr = Select(x.heapGet(st.heap, key, SArr2), s.Id)
		}
		short := name[len("unicode/utf8."):]
		r := App("ext.utf8."+short, SInt, arr, s.Off, s.Len)
		size := App("ext.utf8."+short+".size", SInt, arr, s.Off, s.Len)
		st.assume(And(Le(IntC(0), r), Le(r, IntC(0x10FFFF))))
		st.assume(Ite(Eq(s.Len, IntC(0)), And(Eq(size, IntC(0)), Eq(r, IntC(0xFFFD))), And(Le(IntC(1), size), Le(size, IntC(4)), Le(size, s.Len))))
		// ASCII: a byte below 0x80 decodes to itself, width 1
		var edge *Term
		if short == "DecodeRune" || short == "DecodeRuneInString" {
			edge = x.byteAt(st, s, IntC(0))
		} else {
			edge = x.byteAt(st, s, Sub(s.Len, IntC(1)))
		}
		st.assume(Implies(And(Gt(s.Len, IntC(0)), Lt(edge, IntC(0x80))), And(Eq(r, edge), Eq(size, IntC(1)))))
		st.assume(Implies(And(Gt(s.Len, IntC(0)), Ge(edge, IntC(0x80))), Ge(r, IntC(0x80))))
		rt := c.Type().(*types.Tuple)
		return SV{K: KTuple, Ty: c.Type(), Fields: []SV{intSV(r, rt.At(0).Type()), intSV(size, rt.At(1).Type())}}
	}
	if strings.HasPrefix(name, "(*strings.Builder).") {
		return x.builderCall(st, c, strings.TrimPrefix(name, "(*strings.Builder)."), args)
	}
	switch name {
	case "strings.ContainsRune", "bytes.ContainsRune":
		set, ok := x.prog.constOf(args[0])
		if !ok {
			x.fail("%s with a non-constant set", name)
		}
		return boolSV(x.inCharSet(args[1].T, set))
	case "unicode/utf8.EncodeRune":
		p, r := args[0], args[1].T
		n := Var(x.freshName("encn"), SInt)
		x.safe(st, "index", Ge(p.Len, IntC(4)), "utf8.EncodeRune: buffer of at least UTFMax bytes", c.Pos())
		x.registerKey("E:byte", SArr2)
		h := x.heapGet(st.heap, "E:byte", SArr2)
		old := Select(h, p.Id)
		na := Var(x.freshName("encarr"), SArrI)
		st.assume(Ite(And(Le(IntC(0), r), Lt(r, IntC(0x80))), And(Eq(n, IntC(1)), Eq(Select(na, p.Off), r)), And(Le(IntC(2), n), Le(n, IntC(4)))))
		j := Var(x.freshName("j!enc"), SInt)
		st.assume(Forall([]*Term{j}, Implies(Or(Lt(j, p.Off), Ge(j, Add(p.Off, n))), Eq(Select(na, j), Select(old, j)))))
		j2 := Var(x.freshName("j!enc"), SInt)
		st.assume(Forall([]*Term{j2}, Implies(And(Le(p.Off, j2), Lt(j2, Add(p.Off, n))), And(Le(IntC(0), Select(na, j2)), Le(Select(na, j2), IntC(255))))))
		st.heap["E:byte"] = Store(h, p.Id, na)
		return intSV(n, types.Typ[types.Int])
	}
	if sv, ok := x.externCall2(st, c, f, name, args); ok {
		return sv
	}
	x.fail("call to external function %s (no assumed contract)", name)
	return SV{}
}

// builderCall: strings.Builder as an append-only byte sequence kept in its buf field.
func (x *Exec) builderCall(st *State, c *ssa.Call, method string, args []SV) SV {
	recv := args[0]
	if recv.T == nil {
		x.fail("strings.Builder receiver is not a heap reference")
	}
	bt := c.Call.Args[0].Type().Underlying().(*types.Pointer).Elem()
	stt := bt.Underlying().(*types.Struct)
	bufIdx := -1
	for i := 0; i < stt.NumFields(); i++ {
		if stt.Field(i).Name() == "buf" {
			bufIdx = i
		}
	}
	if bufIdx < 0 {
		x.fail("strings.Builder layout")
	}
	x.safe(st, "nil", Ne(recv.T, IntC(0)), "nil *strings.Builder", c.Pos())
	loc := &Loc{Ref: recv.T, RefTy: bt, Path: []int{bufIdx}}
	buf := x.load(st, loc)
	byteT := types.Typ[types.Byte]
	bufTy := stt.Field(bufIdx).Type()
	switch method {
	case "Grow":
		return SV{K: KTuple}
	case "Len":
		return intSV(buf.Len, types.Typ[types.Int])
	case "WriteByte":
		t := SV{K: KSeq, Arr: Store(App("zeroarr", SArrI), IntC(0), args[1].T), Off: IntC(0), Len: IntC(1), Cap: IntC(1)}
		x.store(st, loc, x.appendCore(st, buf, t, byteT, "E:byte", bufTy))
		return refSV(IntC(0), c.Type()) // error result: nil
	case "Write":
		t := args[1]
		n := t.Len
		x.store(st, loc, x.appendCore(st, buf, t, byteT, "E:byte", bufTy))
		return SV{K: KTuple, Ty: c.Type(), Fields: []SV{intSV(n, types.Typ[types.Int]), refSV(IntC(0), types.Universe.Lookup("error").Type())}}
	case "WriteString":
		t := args[1]
		n := t.Len
		x.store(st, loc, x.appendCore(st, buf, t, byteT, "S:byte", bufTy))
		return SV{K: KTuple, Ty: c.Type(), Fields: []SV{intSV(n, types.Typ[types.Int]), refSV(IntC(0), types.Universe.Lookup("error").Type())}}
	case "WriteRune":
		r := args[1].T
		enc := Var(x.freshName("runeenc"), SArrI)
		n := Var(x.freshName("runelen"), SInt)
		st.assume(Ite(And(Le(IntC(0), r), Lt(r, IntC(0x80))), And(Eq(n, IntC(1)), Eq(Select(enc, IntC(0)), r)),
			And(Le(IntC(1), n), Le(n, IntC(4)),
				Ge(Select(enc, IntC(0)), IntC(0x80)), Ge(Select(enc, IntC(1)), IntC(0x80)), Ge(Select(enc, IntC(2)), IntC(0x80)), Ge(Select(enc, IntC(3)), IntC(0x80)))))
		for k := int64(0); k < 4; k++ {
			st.assume(And(Le(IntC(0), Select(enc, IntC(k))), Le(Select(enc, IntC(k)), IntC(255))))
		}
		t := SV{K: KSeq, Arr: enc, Off: IntC(0), Len: n, Cap: n}
		x.store(st, loc, x.appendCore(st, buf, t, byteT, "E:byte", bufTy))
		return SV{K: KTuple, Ty: c.Type(), Fields: []SV{intSV(n, types.Typ[types.Int]), refSV(IntC(0), types.Universe.Lookup("error").Type())}}
	case "String":
		x.registerKey("E:byte", SArr2)
		x.registerKey("S:byte", SArr2)
		id := x.allocRef(st)
		st.heap["S:byte"] = Store(x.heapGet(st.heap, "S:byte", SArr2), id, Select(x.heapGet(st.heap, "E:byte", SArr2), buf.Id))
		return SV{K: KSeq, Ty: c.Type(), Id: id, Off: buf.Off, Len: buf.Len, Cap: buf.Len}
	}
	x.fail("strings.Builder.%s", method)
	return SV{}
}

// invoke: calls of interface methods implemented by the user (io.Reader, io.Writer,
// io.StringWriter, ReferenceMatcher).  Callback contracts (DESIGN 2.3): the implementation does
// not write library-owned memory, except that Read may write the buffer it is handed.
func (x *Exec) invoke(st *State, c *ssa.Call, recv SV, args []SV) SV {
	name := normMethodName(c.Common().Method.FullName())
	it := types.Typ[types.Int]
	errT := types.Universe.Lookup("error").Type()
	x.safe(st, "nil", Ne(recv.T, IntC(0)), "method call on a nil interface value", c.Pos())
	site := func(results ...SV) {
		if x.fc == nil || len(st.frames) != 1 {
			return
		}
		x.callGhostUpdatesNamed(st, name, recv, args, results)
	}
	if x.fc != nil && len(st.frames) == 1 {
		if cls := x.fc.CallSites[name]; len(cls) > 0 {
			env := x.contractEnv(st, nil, st.entry)
			x.bindLocals(env, st.top(), nil)
			env.vars["$recv"] = recv
			for i, a := range args {
				env.vars[fmt.Sprintf("$%d", i)] = a
			}
			n := x.invokeOrdinal(c, name)
			for _, cl := range cls {
				x.assert(st, fmt.Sprintf("site:call:%s#%d:%s", name, n, cl.Label), env.evalBool(cl.Expr), cl.Text, c.Pos())
			}
		}
	}
	if strings.HasSuffix(name, ").WriteString") {
		name = "(io.StringWriter).WriteString"
	} else if strings.HasSuffix(name, ").Write") {
		name = "(io.Writer).Write"
	} else if strings.HasSuffix(name, ").Read") {
		name = "(io.Reader).Read"
	}
	switch name {
	case "(io.Reader).Read":
		p := args[0]
		n := x.freshOf(st, it, "Read.n")
		st.assume(And(Le(IntC(0), n.T), Le(n.T, p.Len)))
		err := x.freshOf(st, errT, "Read.err")
		// the reader may write anywhere in p[0:len(p)) and nowhere else
		x.registerKey("E:byte", SArr2)
		h := x.heapGet(st.heap, "E:byte", SArr2)
		old := Select(h, p.Id)
		na := Var(x.freshName("readarr"), SArrI)
		j := Var(x.freshName("j!rd"), SInt)
		st.assume(Forall([]*Term{j}, Implies(Or(Lt(j, p.Off), Ge(j, Add(p.Off, p.Len))), Eq(Select(na, j), Select(old, j)))))
		j2 := Var(x.freshName("j!rd"), SInt)
		st.assume(Forall([]*Term{j2}, And(Le(IntC(0), Select(na, j2)), Le(Select(na, j2), IntC(255)))))
		st.heap["E:byte"] = Store(h, p.Id, na)
		site(n, err)
		return SV{K: KTuple, Ty: c.Type(), Fields: []SV{n, err}}
	case "(io.Writer).Write", "(io.StringWriter).WriteString":
		p := args[0]
		n := x.freshOf(st, it, "Write.n")
		st.assume(And(Le(IntC(0), n.T), Le(n.T, p.Len)))
		err := x.freshOf(st, errT, "Write.err")
		site(n, err)
		return SV{K: KTuple, Ty: c.Type(), Fields: []SV{n, err}}
	case "(zombiezen.com/go/commonmark.ReferenceMatcher).MatchReference":
		res := x.pureCallResult(st.heap, recv.T, "MatchReference", c.Type(), args)
		site(res)
		return res
	case "(error).Error":
		return x.freshString(st, c.Type(), "Error")
	}
	x.fail("interface method call %s", name)
	return SV{}
}

// normMethodName: Write/WriteString/Read of any interface type are the io methods.
func normMethodName(name string) string {
	switch {
	case strings.HasSuffix(name, ").WriteString"):
		return "(io.StringWriter).WriteString"
	case strings.HasSuffix(name, ").Write"):
		return "(io.Writer).Write"
	case strings.HasSuffix(name, ").Read"):
		return "(io.Reader).Read"
	}
	return name
}

func (x *Exec) invokeOrdinal(c *ssa.Call, name string) int {
	n := 0
	for _, b := range c.Parent().Blocks {
		for _, in := range b.Instrs {
			if cc, ok := in.(*ssa.Call); ok {
				if cc == c {
					return n
				}
				if cc.Common().IsInvoke() && normMethodName(cc.Common().Method.FullName()) == name {
					n++
				}
			}
		}
	}
	return n
}

func (x *Exec) callGhostUpdatesNamed(st *State, key string, recv SV, args []SV, results []SV) {
	if len(x.fc.CallGhost[key]) == 0 {
		return
	}
	env := x.contractEnv(st, nil, st.entry)
	x.bindLocals(env, st.top(), nil)
	env.vars["$recv"] = recv
	for i, a := range args {
		env.vars[fmt.Sprintf("$%d", i)] = a
	}
	for i, r := range results {
		env.vars[fmt.Sprintf("$result%d", i)] = r
	}
	if len(results) == 1 {
		env.vars["$result"] = results[0]
	}
	for _, g := range x.fc.CallGhost[key] {
		old, ok := st.ghost[g.Name]
		if !ok {
			x.fail("ghost update of undeclared ghost %s", g.Name)
		}
		nv := env.eval(g.Expr)
		if nv.K == KRef && old.K == KInt {
			nv = intSV(nv.T, types.Typ[types.Int]) // references are integers in ghost state
		}
		if nv.K != old.K {
			x.fail("ghost update of %s changes its kind", g.Name)
		}
		st.ghost[g.Name] = nv
		env.vars[g.Name] = nv
	}
}

func sigString(t types.Type) string {
	sig, ok := t.Underlying().(*types.Signature)
	if !ok {
		return t.String()
	}
	// parameter names are irrelevant
	var ps, rs []string
	q := func(p *types.Package) string {
		if p.Path() == modulePath || p.Path() == modulePath+"/format" {
			return ""
		}
		return p.Name()
	}
	for i := 0; i < sig.Params().Len(); i++ {
		ps = append(ps, types.TypeString(sig.Params().At(i).Type(), q))
	}
	for i := 0; i < sig.Results().Len(); i++ {
		rs = append(rs, types.TypeString(sig.Results().At(i).Type(), q))
	}
	s := "func(" + strings.Join(ps, ", ") + ")"
	if len(rs) == 1 {
		s += " " + rs[0]
	} else if len(rs) > 1 {
		s += " (" + strings.Join(rs, ", ") + ")"
	}
	return s
}

// pureCallResult: the deterministic result of calling a pure callback.
func (x *Exec) pureCallResult(cur HeapView, fid *Term, sig string, rt types.Type, args []SV) SV {
	var flat []*Term
	flat = append(flat, fid)
	for _, a := range args {
		if a.K == KSeq && (a.Arr != nil || a.Ty == nil || elemKeyBase(elemTypeOf(a.Ty)) == "E:byte") {
			// a byte sequence is passed by value as far as a pure callback is concerned: its contents
			flat = append(flat, x.seqVal(cur, a))
			continue
		}
		flat = append(flat, x.leafTerms(a)...)
	}
	var ts []*Term
	for _, lf := range leavesOf(rt) {
		ts = append(ts, App("pcall."+sig+lf.suffix, lf.sort, flat...))
	}
	sv, _ := x.fromLeaves(rt, ts)
	return sv
}

func (x *Exec) dynamicCall(st *State, c *ssa.Call, fv SV, args []SV) SV {
	sig := sigString(c.Call.Value.Type())
	mode := x.prog.contracts.Callbacks[sig]
	if mode == "" {
		x.fail("call through a function value of type %s (no callback contract)", sig)
	}
	var fid *Term
	if fv.Fn != nil {
		fid = x.funcID(fv)
	} else {
		fid = fv.T
	}
	if fid == nil {
		x.fail("function value without identity")
	}
	if fv.Fn == nil {
		x.safe(st, "nil", Ne(fid, IntC(0)), "call of a nil function value", c.Pos())
	}
	// site obligations of the enclosing function's contract
	if x.fc != nil && len(st.frames) == 1 {
		if cls := x.fc.CallSites[sig]; len(cls) > 0 {
			env := x.contractEnv(st, nil, st.entry)
			x.bindLocals(env, st.top(), nil)
			f := fv
			f.T = fid
			env.vars["$f"] = f
			for i, a := range args {
				env.vars[fmt.Sprintf("$%d", i)] = a
			}
			n := x.dynCallOrdinal(c, sig)
			for _, cl := range cls {
				x.assert(st, fmt.Sprintf("site:call:%s#%d:%s", sig, n, cl.Label), env.evalBool(cl.Expr), cl.Text, c.Pos())
			}
		}
	}
	rt := c.Type()
	if mode == "pure" {
		if tt, ok := rt.(*types.Tuple); ok && tt.Len() == 0 {
			return SV{K: KTuple}
		}
		res := x.pureCallResult(st.heap, fid, sig, rt, args)
		x.assumeTypeInv(st, res)
		if ens := x.prog.contracts.CallbackEnsures[sig]; ens != nil {
			env := &CEnv{x: x, vars: map[string]SV{"result": res}, cur: st.heap, qn: &x.qn}
			st.assume(env.evalBool(ens))
		}
		x.callGhostUpdates(st, sig, fv, fid, args, res)
		return res
	}
	// impure callback: arbitrary result; it does not write library-owned memory (standing assumption)
	if tt, ok := rt.(*types.Tuple); ok && tt.Len() == 0 {
		x.callGhostUpdates(st, sig, fv, fid, args, SV{K: KTuple})
		return SV{K: KTuple}
	}
	ires := x.freshOf(st, rt, "cb")
	x.callGhostUpdates(st, sig, fv, fid, args, ires)
	return ires
}

// callGhostUpdates: ghost updates attached to calls through a function value of this signature.
func (x *Exec) callGhostUpdates(st *State, sig string, fv SV, fid *Term, args []SV, res SV) {
	if x.fc == nil || len(st.frames) != 1 || len(x.fc.CallGhost[sig]) == 0 {
		return
	}
	env := x.contractEnv(st, nil, st.entry)
	x.bindLocals(env, st.top(), nil)
	f := fv
	f.T = fid
	env.vars["$f"] = f
	env.vars["$result"] = res
	for i, a := range args {
		env.vars[fmt.Sprintf("$%d", i)] = a
	}
	for _, g := range x.fc.CallGhost[sig] {
		old, ok := st.ghost[g.Name]
		if !ok {
			x.fail("ghost update of undeclared ghost %s", g.Name)
		}
		nv := env.eval(g.Expr)
		if nv.K == KRef && old.K == KInt {
			nv = intSV(nv.T, types.Typ[types.Int]) // references are integers in ghost state
		}
		if nv.K != old.K {
			x.fail("ghost update of %s changes its kind", g.Name)
		}
		st.ghost[g.Name] = nv
		env.vars[g.Name] = nv
	}
}

func (x *Exec) dynCallOrdinal(c *ssa.Call, sig string) int {
	n := 0
	for _, b := range c.Parent().Blocks {
		for _, in := range b.Instrs {
			if cc, ok := in.(*ssa.Call); ok {
				if cc == c {
					return n
				}
				if cc.Common().StaticCallee() == nil && !cc.Common().IsInvoke() {
					if _, isB := cc.Common().Value.(*ssa.Builtin); !isB && sigString(cc.Common().Value.Type()) == sig {
						n++
					}
				}
			}
		}
	}
	return n
}


func (x *Exec) makeInterface(st *State, v SV, from, to types.Type) SV {
	var ts []*Term
	func() {
		defer func() {
			if r := recover(); r != nil {
				ts = nil
			}
		}()
		ts = x.leafTerms(v)
	}()
	var t *Term
	if ts != nil {
		t = App("mkiface."+typeName(from), SInt, ts...)
	} else {
		t = Var(x.freshName("iface"), SInt)
	}
	st.assume(Lt(IntC(0), t))
	cp := v
	return SV{K: KRef, T: t, Ty: to, Dyn: &cp}
}

func (x *Exec) typeAssert(st *State, i *ssa.TypeAssert) SV {
	v := x.value(st, i.X)
	if v.Dyn != nil && types.Identical(v.Dyn.Ty, i.AssertedType) && !i.CommaOk {
		return *v.Dyn
	}
	x.fail("type assertion")
	return SV{}
}

// String iteration: the iterator is a ghost position; Next decodes one rune.
func (x *Exec) rangeInit(st *State, i *ssa.Range) SV {
	if !isStringType(i.X.Type()) {
		x.fail("range over a map")
	}
	s := x.value(st, i.X)
	fr := st.top()
	if fr.iters == nil {
		fr.iters = map[*ssa.Range]*Term{}
	}
	fr.iters[i] = IntC(0)
	cp := s
	return SV{K: KRef, T: IntC(0), Ty: i.Type(), Dyn: &cp}
}

func (x *Exec) decodeAt(st *State, s SV, pos *Term) (r, size *Term) {
	var arr *Term
	if s.Arr != nil {
		arr = s.Arr
	} else {
		key := "E:byte"
		if isStringType(s.Ty) {
			key = "S:byte"
		}
		x.registerKey(key, SArr2)
		arr = Select(x.heapGet(st.heap, key, SArr2), s.Id)
	}
	off := Add(s.Off, pos)
	n := Sub(s.Len, pos)
	r = App("ext.utf8.DecodeRune", SInt, arr, off, n)
	size = App("ext.utf8.DecodeRune.size", SInt, arr, off, n)
	first := Select(arr, off)
	st.assume(And(Le(IntC(0), r), Le(r, IntC(0x10FFFF))))
	st.assume(Implies(Gt(n, IntC(0)), And(Le(IntC(1), size), Le(size, IntC(4)), Le(size, n))))
	st.assume(Implies(And(Gt(n, IntC(0)), Lt(first, IntC(0x80))), And(Eq(r, first), Eq(size, IntC(1)))))
	st.assume(Implies(And(Gt(n, IntC(0)), Ge(first, IntC(0x80))), Ge(r, IntC(0x80))))
	return r, size
}

func (x *Exec) rangeNext(st *State, i *ssa.Next) SV {
	if !i.IsString {
		x.fail("range over a map")
	}
	rng, ok := i.Iter.(*ssa.Range)
	if !ok {
		x.fail("iterator is not a range instruction")
	}
	fr := st.top()
	it := x.value(st, i.Iter)
	if it.Dyn == nil {
		x.fail("lost string iterator")
	}
	s := *it.Dyn
	pos := fr.iters[rng]
	if pos == nil {
		x.fail("string iterator has no position")
	}
	okT := Lt(pos, s.Len)
	r, size := x.decodeAt(st, s, pos)
	fr.iters[rng] = Ite(okT, Add(pos, size), pos)
	tt := i.Type().(*types.Tuple)
	return SV{K: KTuple, Ty: i.Type(), Fields: []SV{boolSV(okT), intSV(pos, tt.At(1).Type()), intSV(r, tt.At(2).Type())}}
}
