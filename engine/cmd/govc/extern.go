package main

// Assumed contracts of functions outside the two packages (DESIGN 4.2), and
// the pieces of the memory model for maps, interfaces and string iteration.

import (
	"go/types"

	"golang.org/x/tools/go/ssa"
)

func fullName(f *ssa.Function) string {
	if f.Pkg != nil && f.Signature.Recv() == nil {
		return f.Pkg.Pkg.Path() + "." + f.Name()
	}
	return f.String()
}

// externMods: heap keys an external function may modify.
func externMods(f *ssa.Function) (keys []string, allocs bool, known bool) {
	switch fullName(f) {
	case "bytes.IndexAny", "bytes.IndexByte", "bytes.ContainsRune", "bytes.Contains", "bytes.HasPrefix", "bytes.Equal",
		"strings.IndexByte", "strings.ContainsRune", "strings.HasPrefix", "strings.HasSuffix", "strings.Contains",
		"unicode/utf8.DecodeRune", "unicode/utf8.DecodeLastRune", "unicode/utf8.DecodeRuneInString", "unicode/utf8.RuneLen",
		"unicode.Is", "unicode.In", "unicode.IsSpace", "unicode.IsPunct", "unicode/utf8.RuneStart", "unicode/utf8.FullRune":
		return nil, false, true
	case "bytes.TrimLeft", "bytes.TrimRight", "bytes.TrimSpace", "strings.TrimSpace", "strings.Trim", "strings.TrimLeft", "strings.TrimRight":
		return nil, false, true
	case "fmt.Errorf", "fmt.Sprintf", "errors.New", "strings.Repeat", "strings.ToLower", "html.EscapeString", "html.UnescapeString",
		"strings.Fields", "strconv.Itoa":
		return []string{"S:byte"}, true, true
	case "strconv.AppendInt":
		return []string{"E:byte"}, true, true
	}
	return nil, false, false
}

func (x *Exec) byteAt(st *State, s SV, i *Term) *Term {
	if s.Arr != nil {
		return Select(s.Arr, Add(s.Off, i))
	}
	key := "E:byte"
	if isStringType(s.Ty) {
		key = "S:byte"
	}
	x.registerKey(key, SArr2)
	return Select(Select(x.heapGet(st.heap, key, SArr2), s.Id), Add(s.Off, i))
}

func isStringType(t types.Type) bool {
	if t == nil {
		return false
	}
	b, ok := t.Underlying().(*types.Basic)
	return ok && b.Info()&types.IsString != 0
}

func (x *Exec) inCharSet(c *Term, set string) *Term {
	var ds []*Term
	for i := 0; i < len(set); i++ {
		if set[i] >= 0x80 {
			x.fail("non-ASCII character set in extern contract")
		}
		ds = append(ds, Eq(c, IntC(int64(set[i]))))
	}
	return Or(ds...)
}

func (x *Exec) externCall(st *State, c *ssa.Call, f *ssa.Function, args []SV) SV {
	name := fullName(f)
	it := types.Typ[types.Int]
	switch name {
	case "bytes.IndexAny":
		set, ok := x.prog.constOf(args[1])
		if !ok {
			x.fail("bytes.IndexAny with non-constant set")
		}
		s := args[0]
		r := x.freshOf(st, it, "IndexAny")
		k := Var(x.freshName("k!ia"), SInt)
		st.assume(And(Le(IntC(-1), r.T), Lt(r.T, s.Len)))
		st.assume(Implies(Ge(r.T, IntC(0)), x.inCharSet(x.byteAt(st, s, r.T), set)))
		bound := Ite(Ge(r.T, IntC(0)), r.T, s.Len)
		st.assume(Forall([]*Term{k}, Implies(And(Le(IntC(0), k), Lt(k, bound)), Not(x.inCharSet(x.byteAt(st, s, k), set)))))
		return r
	case "bytes.IndexByte", "strings.IndexByte":
		s := args[0]
		b := args[1].T
		r := x.freshOf(st, it, "IndexByte")
		k := Var(x.freshName("k!ib"), SInt)
		st.assume(And(Le(IntC(-1), r.T), Lt(r.T, s.Len)))
		st.assume(Implies(Ge(r.T, IntC(0)), Eq(x.byteAt(st, s, r.T), b)))
		bound := Ite(Ge(r.T, IntC(0)), r.T, s.Len)
		st.assume(Forall([]*Term{k}, Implies(And(Le(IntC(0), k), Lt(k, bound)), Ne(x.byteAt(st, s, k), b))))
		return r
	case "unicode.Is", "unicode.In", "unicode.IsSpace", "unicode.IsPunct":
		// uninterpreted, pure predicates on the rune (and the table arguments)
		var ts []*Term
		for _, a := range args {
			if a.K == KInt {
				ts = append(ts, a.T)
			}
		}
		tag := name
		for _, a := range c.Call.Args {
			if u, ok := a.(*ssa.UnOp); ok {
				if g, ok := u.X.(*ssa.Global); ok {
					tag += "." + g.Name()
				}
			} else if g, ok := a.(*ssa.Global); ok {
				tag += "." + g.Name()
			}
		}
		if name == "unicode.In" && len(c.Call.Args) == 2 {
			// variadic tables: recover the globals stored into the varargs array
			if sl, ok := c.Call.Args[1].(*ssa.Slice); ok {
				if al, ok := sl.X.(*ssa.Alloc); ok {
					names := map[int64]string{}
					for _, r := range *al.Referrers() {
						ia, ok := r.(*ssa.IndexAddr)
						if !ok {
							continue
						}
						idx, ok := ia.Index.(*ssa.Const)
						if !ok {
							continue
						}
						for _, r2 := range *ia.Referrers() {
							if stt, ok := r2.(*ssa.Store); ok {
								if u, ok := stt.Val.(*ssa.UnOp); ok {
									if g, ok := u.X.(*ssa.Global); ok {
										names[idx.Int64()] = g.Name()
									}
								}
							}
						}
					}
					for k := int64(0); k < int64(len(names)); k++ {
						tag += "." + names[k]
					}
				}
			}
		}
		res := App("ext."+tag, SBool, ts...)
		if tag == "unicode.Is.Zs" && len(ts) == 1 {
			// the only ASCII character of category Zs is U+0020 (Unicode character database)
			st.assume(Implies(And(Le(IntC(0), ts[0]), Le(ts[0], IntC(0x7f))), Eq(res, Eq(ts[0], IntC(0x20)))))
		}
		return boolSV(res)
	case "unicode/utf8.DecodeRune", "unicode/utf8.DecodeLastRune", "unicode/utf8.DecodeRuneInString", "unicode/utf8.DecodeLastRuneInString":
		s := args[0]
		var arr *Term
		if s.Arr != nil {
			arr = s.Arr
		} else {
			key := "E:byte"
			if isStringType(s.Ty) {
				key = "S:byte"
			}
			x.registerKey(key, SArr2)
			arr = Select(x.heapGet(st.heap, key, SArr2), s.Id)
		}
		short := name[len("unicode/utf8."):]
		r := App("ext.utf8."+short, SInt, arr, s.Off, s.Len)
		size := App("ext.utf8."+short+".size", SInt, arr, s.Off, s.Len)
		st.assume(And(Le(IntC(0), r), Le(r, IntC(0x10FFFF))))
		st.assume(Ite(Eq(s.Len, IntC(0)), And(Eq(size, IntC(0)), Eq(r, IntC(0xFFFD))), And(Le(IntC(1), size), Le(size, IntC(4)), Le(size, s.Len))))
		// ASCII: a byte below 0x80 decodes to itself, width 1
		var edge *Term
		if short == "DecodeRune" || short == "DecodeRuneInString" {
			edge = x.byteAt(st, s, IntC(0))
		} else {
			edge = x.byteAt(st, s, Sub(s.Len, IntC(1)))
		}
		st.assume(Implies(And(Gt(s.Len, IntC(0)), Lt(edge, IntC(0x80))), And(Eq(r, edge), Eq(size, IntC(1)))))
		st.assume(Implies(And(Gt(s.Len, IntC(0)), Ge(edge, IntC(0x80))), Ge(r, IntC(0x80))))
		rt := c.Type().(*types.Tuple)
		return SV{K: KTuple, Ty: c.Type(), Fields: []SV{intSV(r, rt.At(0).Type()), intSV(size, rt.At(1).Type())}}
	}
	x.fail("call to external function %s (no assumed contract)", name)
	return SV{}
}

func (x *Exec) invoke(st *State, c *ssa.Call, recv SV, args []SV) SV {
	x.fail("interface method call %s", c.Common().Method.FullName())
	return SV{}
}

func (x *Exec) dynamicCall(st *State, c *ssa.Call, fv SV, args []SV) SV {
	x.fail("call through a function value")
	return SV{}
}

func (x *Exec) mapUpdate(st *State, i *ssa.MapUpdate)  { x.fail("map update") }
func (x *Exec) mapLookup(st *State, i *ssa.Lookup) SV  { x.fail("map lookup"); return SV{} }
func (x *Exec) mapDelete(st *State, c *ssa.Call)       { x.fail("map delete") }
func (x *Exec) initMap(st *State, r *Term, t types.Type) {}

func (x *Exec) makeInterface(st *State, v SV, from, to types.Type) SV {
	var ts []*Term
	func() {
		defer func() {
			if r := recover(); r != nil {
				ts = nil
			}
		}()
		ts = x.leafTerms(v)
	}()
	var t *Term
	if ts != nil {
		t = App("mkiface."+typeName(from), SInt, ts...)
	} else {
		t = Var(x.freshName("iface"), SInt)
	}
	st.assume(Lt(IntC(0), t))
	cp := v
	return SV{K: KRef, T: t, Ty: to, Dyn: &cp}
}

func (x *Exec) typeAssert(st *State, i *ssa.TypeAssert) SV {
	v := x.value(st, i.X)
	if v.Dyn != nil && types.Identical(v.Dyn.Ty, i.AssertedType) && !i.CommaOk {
		return *v.Dyn
	}
	x.fail("type assertion")
	return SV{}
}

func (x *Exec) rangeInit(st *State, i *ssa.Range) SV { x.fail("range over string/map"); return SV{} }
func (x *Exec) rangeNext(st *State, i *ssa.Next) SV  { x.fail("range over string/map"); return SV{} }
