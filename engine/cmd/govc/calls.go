package main

import (
	"fmt"
	"go/constant"
	"go/token"
	"go/types"
	"math/big"
	"sort"
	"strings"

	"golang.org/x/tools/go/ssa"
)

type bigInt = big.Int

var bigOne = big.NewInt(1)

func constantToBig(c *ssa.Const) (*big.Int, bool) {
	if c.Value.Kind() != constant.Int {
		v := constant.ToInt(c.Value)
		if v.Kind() != constant.Int {
			return nil, false
		}
		b, ok := new(big.Int).SetString(v.ExactString(), 10)
		return b, ok
	}
	b, ok := new(big.Int).SetString(c.Value.ExactString(), 10)
	return b, ok
}
func constantBool(c *ssa.Const) bool     { return constant.BoolVal(c.Value) }
func constantString(c *ssa.Const) string { return constant.StringVal(c.Value) }

// call executes a call instruction. It returns false when the path ended.
func (x *Exec) call(st *State, c *ssa.Call) bool {
	fr := st.top()
	cc := c.Common()
	if b, ok := cc.Value.(*ssa.Builtin); ok {
		fr.regs[c] = x.builtin(st, b, c)
		return true
	}
	if cc.IsInvoke() {
		recv := x.value(st, cc.Value)
		var args []SV
		for _, a := range cc.Args {
			args = append(args, x.value(st, a))
		}
		fr.regs[c] = x.invoke(st, c, recv, args)
		return true
	}
	var args []SV
	for _, a := range cc.Args {
		args = append(args, x.value(st, a))
	}
	callee := cc.StaticCallee()
	var bind []SV
	if callee == nil {
		fv := x.value(st, cc.Value)
		if fv.K == KFunc && fv.Fn != nil && x.prog.contracts.Callbacks[sigString(cc.Value.Type())] == "" {
			callee = fv.Fn
			bind = fv.Bind
		} else {
			fr.regs[c] = x.dynamicCall(st, c, fv, args)
			return true
		}
	} else if mc, ok := cc.Value.(*ssa.MakeClosure); ok {
		fv := x.value(st, mc)
		bind = fv.Bind
	}
	if strings.HasPrefix(callee.Name(), "ssa:") {
		fr.regs[c] = refSV(IntC(0), c.Type())
		return true
	}
	if x.havocHere(callee) {
		// sound over-approximation of a callee that is not under contract here: arbitrary results, arbitrary heap
		if x.fc != nil && len(st.frames) == 1 {
			hk := calleeKey(callee)
			if cls := x.fc.CallSites[hk]; len(cls) > 0 {
				senv := x.contractEnv(st, nil, st.entry)
				x.bindLocals(senv, st.top(), nil)
				for i, a := range args {
					senv.vars[fmt.Sprintf("$%d", i)] = a
				}
				n := x.callOrdinal(c)
				for _, cl := range cls {
					x.assertClause(st, fmt.Sprintf("site:call:%s#%d:%s", hk, n, cl.Label), senv, cl.Expr, cl.Text, c.Pos())
				}
			}
			if len(x.fc.CallGhost[hk]) > 0 {
				x.callGhostUpdatesNamed(st, hk, SV{}, args, nil)
			}
		}
		keeps := x.havocKeeps(callee)
		for _, tn := range keeps {
			why := x.prog.keepsCheck(callee, tn)
			x.assert(st, fmt.Sprintf("frame:keeps:%s@%s", tn, calleeKey(callee)), BoolC(why == ""), "no function reachable from "+calleeKey(callee)+" writes a field of "+tn+" (structural) "+why, c.Pos())
		}
		preWM := st.wm
		x.havocAll(st, keeps...)
		res := x.freshOf(st, c.Type(), callee.Name()+".havoc")
		if res.K == KRef && res.T != nil && returnsFreshObject(callee) {
			// every return statement of the callee returns the address of a composite literal / new(T)
			st.assume(And(Ne(res.T, IntC(0)), Ge(res.T, preWM)))
		}
		fr.regs[c] = res
		return true
	}
	if fc := x.prog.contractFor(callee); fc != nil && !fc.Inline && (!fc.InlineAtCalls || x.contractHere(fc)) && !x.inlineHere(fc) {
		fr.regs[c] = x.applyContract(st, c, callee, fc, args)
		return true
	}
	if !x.prog.inScope(callee) || len(callee.Blocks) == 0 {
		ename := fullName(callee)
		if x.fc != nil && len(st.frames) == 1 {
			if cls := x.fc.CallSites[ename]; len(cls) > 0 {
				senv := x.contractEnv(st, nil, st.entry)
				x.bindLocals(senv, st.top(), nil)
				for i, a := range args {
					senv.vars[fmt.Sprintf("$%d", i)] = a
				}
				n := x.callOrdinal(c)
				for _, cl := range cls {
					x.assertClause(st, fmt.Sprintf("site:call:%s#%d:%s", ename, n, cl.Label), senv, cl.Expr, cl.Text, c.Pos())
				}
			}
		}
		res := x.externCall(st, c, callee, args)
		fr.regs[c] = res
		if x.fc != nil && len(st.frames) == 1 && len(x.fc.CallGhost[ename]) > 0 {
			var results []SV
			if res.K == KTuple {
				results = res.Fields
			} else {
				results = []SV{res}
			}
			x.callGhostUpdatesNamed(st, ename, SV{}, args, results)
		}
		return true
	}
	// inline
	for _, f := range st.frames {
		if f.fn == callee {
			x.fail("recursive call to %s", callee.Name())
		}
	}
	if len(st.frames) > 6 {
		x.fail("inlining depth exceeded at %s", callee.Name())
	}
	if hasLoop(callee) {
		x.fail("callee %s has a loop and no contract", calleeKey(callee))
	}
	x.enterInline(st, callee, bind, args, c)
	return true
}

func modifiesEverything(fc *FuncContract) bool {
	for _, m := range fc.Modifies {
		if m == "everything" {
			return true
		}
	}
	return false
}

func (x *Exec) havocHere(callee *ssa.Function) bool {
	if x.fc == nil || callee == nil {
		return false
	}
	k := calleeKey(callee)
	for _, h := range x.fc.HavocCalls {
		if h == k || h == "*" && x.prog.inScope(callee) {
			return true
		}
	}
	return false
}

// returnsFreshObject: syntactically, every return of fn yields an object allocated in fn.
func returnsFreshObject(fn *ssa.Function) bool {
	n := 0
	for _, b := range fn.Blocks {
		for _, in := range b.Instrs {
			if r, ok := in.(*ssa.Return); ok {
				if len(r.Results) != 1 {
					return false
				}
				v := r.Results[0]
				// naive form: the result may be re-loaded from never-reassigned local cells
				for depth := 0; depth < 4; depth++ {
					u, ok := v.(*ssa.UnOp)
					if !ok || u.Op != token.MUL {
						break
					}
					a, ok := u.X.(*ssa.Alloc)
					if !ok {
						break
					}
					var stored ssa.Value
					cnt := 0
					for _, ref := range *a.Referrers() {
						if s, ok := ref.(*ssa.Store); ok && s.Addr == a {
							stored = s.Val
							cnt++
						}
					}
					if cnt != 1 {
						break
					}
					v = stored
				}
				if a, ok := v.(*ssa.Alloc); !ok || !a.Heap {
					return false
				}
				n++
			}
		}
	}
	return n > 0
}

func (x *Exec) havocKeeps(callee *ssa.Function) []string {
	if x.fc == nil {
		return nil
	}
	if k, ok := x.fc.HavocKeeps[calleeKey(callee)]; ok {
		return k
	}
	return x.fc.HavocKeeps["*"]
}

func (x *Exec) contractHere(callee *FuncContract) bool {
	if x.fc == nil {
		return false
	}
	for _, k := range x.fc.ContractCalls {
		if k == callee.Key {
			return true
		}
	}
	return false
}

func (x *Exec) inlineHere(callee *FuncContract) bool {
	if x.fc == nil {
		return false
	}
	for _, k := range x.fc.InlineCalls {
		if k == callee.Key {
			return true
		}
	}
	return false
}

func hasLoop(f *ssa.Function) bool {
	for _, b := range f.Blocks {
		for _, s := range b.Succs {
			if s.Dominates(b) {
				return true
			}
		}
	}
	return false
}

func (x *Exec) enterInline(st *State, fn *ssa.Function, bind []SV, args []SV, site *ssa.Call) {
	nf := &Frame{fn: fn, regs: map[ssa.Value]SV{}, cells: map[*ssa.Alloc]SV{}, loopSeen: map[*ssa.BasicBlock]*loopVisit{}, block: fn.Blocks[0], callSite: site}
	if len(args) != len(fn.Params) {
		x.fail("inline %s: %d args for %d params", fn.Name(), len(args), len(fn.Params))
	}
	for i, p := range fn.Params {
		nf.regs[p] = args[i]
	}
	if len(bind) != len(fn.FreeVars) {
		x.fail("inline %s: %d bindings for %d free variables", fn.Name(), len(bind), len(fn.FreeVars))
	}
	for i, fv := range fn.FreeVars {
		nf.regs[fv] = bind[i]
	}
	st.frames = append(st.frames, nf)
}

func (x *Exec) returnFromInline(st *State, results []SV) {
	fr := st.top()
	st.frames = st.frames[:len(st.frames)-1]
	caller := st.top()
	if fr.callSite == nil {
		return // deferred closure: result discarded, caller re-runs RunDefers
	}
	switch len(results) {
	case 0:
		caller.regs[fr.callSite] = SV{K: KTuple}
	case 1:
		caller.regs[fr.callSite] = results[0]
	default:
		caller.regs[fr.callSite] = SV{K: KTuple, Fields: results, Ty: fr.callSite.Type()}
	}
}

// ---- builtins ----

func (x *Exec) builtin(st *State, b *ssa.Builtin, c *ssa.Call) SV {
	args := c.Call.Args
	switch b.Name() {
	case "len":
		v := x.value(st, args[0])
		if v.K == KSeq {
			return intSV(v.Len, c.Type())
		}
		if v.Dyn != nil && v.Dyn.K == KSeq {
			return intSV(v.Dyn.Len, c.Type())
		}
		if typeKind(args[0].Type()) == KRef {
			if _, isMap := args[0].Type().Underlying().(*types.Map); isMap {
				n := x.freshOf(st, types.Typ[types.Int], "maplen")
				st.assume(Le(IntC(0), n.T))
				return n
			}
		}
		x.fail("len of %s", args[0].Type())
	case "cap":
		v := x.value(st, args[0])
		if v.K == KSeq {
			return intSV(v.Cap, c.Type())
		}
		x.fail("cap of %s", args[0].Type())
	case "append":
		return x.appendOp(st, c)
	case "copy":
		return x.copyOp(st, c)
	case "min", "max":
		a, bb := x.value(st, args[0]), x.value(st, args[1])
		if len(args) != 2 || a.K != KInt {
			x.fail("min/max form")
		}
		if b.Name() == "min" {
			return intSV(Ite(Le(a.T, bb.T), a.T, bb.T), c.Type())
		}
		return intSV(Ite(Ge(a.T, bb.T), a.T, bb.T), c.Type())
	case "ssa:wrapnilchk":
		return x.value(st, args[0])
	case "ssa:deferstack":
		return refSV(IntC(0), c.Type())
	case "delete":
		x.mapDelete(st, c)
		return SV{K: KTuple}
	}
	x.fail("builtin %s", b.Name())
	return SV{}
}

// appendOp: append(s, t...) — in place when the capacity suffices, otherwise a
// fresh backing store with the old contents copied (the two cases of the
// language specification).  The path forks.
func (x *Exec) appendOp(st *State, c *ssa.Call) SV {
	s := x.value(st, c.Call.Args[0])
	t := x.value(st, c.Call.Args[1])
	if t.K != KSeq && t.Dyn != nil && t.Dyn.K == KSeq {
		t = *t.Dyn
	}
	if s.K != KSeq || t.K != KSeq {
		x.fail("append operands")
	}
	et := elemTypeOf(c.Type())
	tet := elemTypeOf(c.Call.Args[1].Type())
	srcBase := elemKeyBase(tet)
	if isStringType(c.Call.Args[1].Type()) {
		srcBase = "S:byte"
	}
	if x.fc != nil && (len(x.fc.AppendSites) > 0 || len(x.fc.GhostSteps) > 0) && len(st.frames) == 1 && elemKeyBase(et) == "E:byte" {
		env := x.contractEnv(st, nil, st.entry)
		x.bindLocals(env, st.top(), nil)
		src := t
		if src.Ty == nil {
			src.Ty = c.Call.Args[1].Type()
		}
		env.vars["$src"] = src
		env.vars["$dst"] = s
		n := x.appendOrdinal(c)
		for _, cl := range x.fc.AppendSites {
			x.assertClause(st, fmt.Sprintf("site:append#%d:%s", n, cl.Label), env, cl.Expr, cl.Text, c.Pos())
		}
		for _, g := range x.fc.GhostSteps {
			if _, ok := st.ghost[g.Name]; !ok {
				x.fail("ghost update of undeclared ghost %s", g.Name)
			}
			nv := intSV(env.evalInt(g.Expr), types.Typ[types.Int])
			st.ghost[g.Name] = nv
			env.vars[g.Name] = nv
		}
	}
	return x.appendCore(st, s, t, et, srcBase, c.Type())
}

// appendCore models append(s, t...): in place when the capacity suffices,
// otherwise a fresh backing store with the old contents copied.
func (x *Exec) appendCore(st *State, s, t SV, et types.Type, srcBase string, resTy types.Type) SV {
	newLen := Add(s.Len, t.Len)
	// allocation succeeds and the total stays below maxAlloc (standing assumption, listed in the evidence)
	st.assume(Le(newLen, MaxLenTerm))
	leaves := leavesOf(et)
	inPlace := Le(newLen, s.Cap)
	rid := Var(x.freshName("app#id"), SInt)
	rcap := Var(x.freshName("app#cap"), SInt)
	roff := Var(x.freshName("app#off"), SInt)
	newID := x.allocRef(st)
	st.assume(Ite(inPlace, And(Eq(rid, s.Id), Eq(rcap, s.Cap), Eq(roff, s.Off)),
		And(Eq(rid, newID), Ge(rcap, newLen), Le(rcap, MaxLenTerm), Eq(roff, IntC(0)))))
	res := SV{K: KSeq, Ty: resTy, Id: rid, Off: roff, Len: newLen, Cap: rcap}
	for _, lf := range leaves {
		k := elemKeyBase(et) + lf.suffix
		srt := arrayOf(arrayOf(lf.sort))
		x.registerKey(k, srt)
		h := x.heapGet(st.heap, k, srt)
		var tarr *Term
		if t.Arr != nil && lf.suffix == "" {
			tarr = t.Arr
		} else {
			sk := srcBase + lf.suffix
			x.registerKey(sk, srt)
			tarr = Select(x.heapGet(st.heap, sk, srt), t.Id)
		}
		oldArr := Select(h, s.Id)
		na := Var(x.freshName("apparr"), arrayOf(lf.sort))
		j := Var(x.freshName("j!app"), SInt)
		st.assume(Forall([]*Term{j}, Implies(And(Le(IntC(0), j), Lt(j, s.Len)),
			Eq(Select(na, Add(roff, j)), Select(oldArr, Add(s.Off, j))))))
		j2 := Var(x.freshName("j!app"), SInt)
		st.assume(Forall([]*Term{j2}, Implies(And(Le(IntC(0), j2), Lt(j2, t.Len)),
			Eq(Select(na, Add(Add(roff, s.Len), j2)), Select(tarr, Add(t.Off, j2))))))
		j3 := Var(x.freshName("j!app"), SInt)
		st.assume(Implies(inPlace, Forall([]*Term{j3}, Implies(Or(Lt(j3, Add(s.Off, s.Len)), Ge(j3, Add(s.Off, newLen))),
			Eq(Select(na, j3), Select(oldArr, j3))))))
		st.heap[k] = Store(h, rid, na)
	}
	return res
}

func (x *Exec) copyOp(st *State, c *ssa.Call) SV {
	d := x.value(st, c.Call.Args[0])
	s := x.value(st, c.Call.Args[1])
	if d.K != KSeq || s.K != KSeq {
		x.fail("copy operands")
	}
	et := elemTypeOf(c.Call.Args[0].Type())
	n := Ite(Le(d.Len, s.Len), d.Len, s.Len)
	srcBase := elemKeyBase(et)
	if b, ok := c.Call.Args[1].Type().Underlying().(*types.Basic); ok && b.Info()&types.IsString != 0 {
		srcBase = "S:byte"
	}
	for _, lf := range leavesOf(et) {
		k := elemKeyBase(et) + lf.suffix
		srt := arrayOf(arrayOf(lf.sort))
		x.registerKey(k, srt)
		h := x.heapGet(st.heap, k, srt)
		sk := srcBase + lf.suffix
		x.registerKey(sk, srt)
		sh := x.heapGet(st.heap, sk, srt)
		var sarr *Term
		if s.Arr != nil && lf.suffix == "" {
			sarr = s.Arr
		} else {
			sarr = Select(sh, s.Id)
		}
		oldArr := Select(h, d.Id)
		na := Var(x.freshName("cparr"), arrayOf(lf.sort))
		j := Var(x.freshName("j!cp"), SInt)
		st.assume(Forall([]*Term{j}, Implies(And(Le(IntC(0), j), Lt(j, n)),
			Eq(Select(na, Add(d.Off, j)), Select(sarr, Add(s.Off, j))))))
		j2 := Var(x.freshName("j!cp"), SInt)
		st.assume(Forall([]*Term{j2}, Implies(Or(Lt(j2, d.Off), Ge(j2, Add(d.Off, n))),
			Eq(Select(na, j2), Select(oldArr, j2)))))
		st.heap[k] = Store(h, d.Id, na)
	}
	return intSV(n, c.Type())
}

// ---- contracts at call sites ----

func calleeKey(f *ssa.Function) string {
	if f.Signature.Recv() != nil {
		rt := f.Signature.Recv().Type()
		star := ""
		if p, ok := rt.(*types.Pointer); ok {
			star = "*"
			rt = p.Elem()
		}
		n := rt.String()
		if nt, ok := rt.(*types.Named); ok {
			n = nt.Obj().Name()
		}
		if star != "" {
			return "(*" + n + ")." + f.Name()
		}
		return n + "." + f.Name()
	}
	if f.Parent() != nil {
		return calleeKey(f.Parent()) + "$" + strings.TrimPrefix(f.Name(), f.Parent().Name()+"$")
	}
	return f.Name()
}

func (x *Exec) applyContract(st *State, c *ssa.Call, callee *ssa.Function, fc *FuncContract, args []SV) SV {
	key := fc.Pkg + "." + fc.Key
	if len(args) != len(callee.Params) {
		x.fail("call %s: argument count", key)
	}
	vars := map[string]SV{}
	for i, p := range callee.Params {
		vars[p.Name()] = args[i]
	}
	env := &CEnv{x: x, vars: vars, cur: st.heap, qn: &x.qn, wmCur: st.wm, wmOld: st.wm, st: st}
	n := x.callOrdinal(c)
	if x.fc != nil && len(st.frames) == 1 {
		if cls := x.fc.CallSites[fc.Key]; len(cls) > 0 {
			senv := x.contractEnv(st, nil, st.entry)
			x.bindLocals(senv, st.top(), nil)
			for i, a := range args {
				senv.vars[fmt.Sprintf("$%d", i)] = a
			}
			for _, cl := range cls {
				x.assertClause(st, fmt.Sprintf("site:call:%s#%d:%s", fc.Key, n, cl.Label), senv, cl.Expr, cl.Text, c.Pos())
			}
		}
	}
	for _, r := range fc.Requires {
		x.assert(st, fmt.Sprintf("pre@%s#%d:%s", fc.Key, n, r.Label), env.evalBool(r.Expr), "precondition of "+fc.Key+": "+r.Text, c.Pos())
	}
	oldHeap := copyHeap(st.heap)
	oldWM := st.wm
	if modifiesEverything(fc) {
		// the callee's frame is unrestricted: only its postconditions say anything about the heap afterwards
		x.havocAll(st)
	} else {
		x.havocModifies(st, callee, fc, vars, oldHeap)
	}
	// results
	sig := callee.Signature
	var results []SV
	for i := 0; i < sig.Results().Len(); i++ {
		results = append(results, x.freshOf(st, sig.Results().At(i).Type(), fmt.Sprintf("%s.ret%d", callee.Name(), i)))
	}
	env2 := &CEnv{x: x, vars: map[string]SV{}, cur: st.heap, old: oldHeap, qn: &x.qn, wmOld: oldWM, wmCur: st.wm, st: st}
	for k, v := range vars {
		env2.vars[k] = v
	}
	for i := range results {
		nm := sig.Results().At(i).Name()
		if nm != "" && nm != "_" {
			env2.vars[nm] = results[i]
		}
		env2.vars[fmt.Sprintf("result%d", i)] = results[i]
	}
	if len(results) == 1 {
		env2.vars["result"] = results[0]
	}
	// the callee's ghost variables are existentially quantified for the caller
	for _, g := range fc.GhostDecls {
		if g.Array {
			env2.vars[g.Name] = SV{K: KSeq, Arr: Var(x.freshName("ghostarr."+g.Name), SArrI), Off: IntC(0), Len: MaxLenTerm, Cap: MaxLenTerm}
		} else {
			env2.vars[g.Name] = intSV(Var(x.freshName("ghost."+g.Name), SInt), types.Typ[types.Int])
		}
	}
	for _, e := range fc.Ensures {
		st.assume(env2.evalBool(e.Expr))
	}
	if x.fc != nil && len(st.frames) == 1 && len(x.fc.CallGhost[fc.Key]) > 0 {
		x.callGhostUpdatesNamed(st, fc.Key, SV{}, args, results)
	}
	if x.fc != nil && len(st.frames) == 1 && len(x.fc.CallUse[fc.Key]) > 0 {
		uenv := x.contractEnv(st, nil, st.entry)
		x.bindLocals(uenv, st.top(), nil)
		for i, a := range args {
			uenv.vars[fmt.Sprintf("$%d", i)] = a
		}
		for i, r := range results {
			uenv.vars[fmt.Sprintf("$result%d", i)] = r
		}
		if len(results) == 1 {
			uenv.vars["$result"] = results[0]
		}
		for _, u := range x.fc.CallUse[fc.Key] {
			if u.Kind != "call" || x.prog.contracts.Lemmas[u.Str] == nil {
				x.fail("callsite %s: use needs a lemma application", fc.Key)
			}
			st.assume(uenv.evalBool(u))
		}
	}
	switch len(results) {
	case 0:
		return SV{K: KTuple}
	case 1:
		return results[0]
	}
	return SV{K: KTuple, Fields: results, Ty: c.Type()}
}

// appendOrdinal numbers the appends to byte slices inside the function in block order.
func (x *Exec) appendOrdinal(c *ssa.Call) int {
	n := 0
	for _, b := range c.Parent().Blocks {
		for _, in := range b.Instrs {
			if cc, ok := in.(*ssa.Call); ok {
				if cc == c {
					return n
				}
				if bi, ok := cc.Common().Value.(*ssa.Builtin); ok && bi.Name() == "append" {
					if et := elemTypeOf(cc.Type()); et != nil && elemKeyBase(et) == "E:byte" {
						n++
					}
				}
			}
		}
	}
	return n
}

// callOrdinal numbers the calls to the same callee inside the caller in block order.
func (x *Exec) callOrdinal(c *ssa.Call) int {
	target := c.Common().StaticCallee()
	n := 0
	for _, b := range c.Parent().Blocks {
		for _, in := range b.Instrs {
			if cc, ok := in.(*ssa.Call); ok {
				if cc == c {
					return n
				}
				if cc.Common().StaticCallee() == target {
					n++
				}
			}
		}
	}
	return n
}

// ---- modifies ----

type modItem struct {
	kind string // "field", "elems", "alloc", "heap", "obj"
	base *CExpr // pointer or slice expression (evaluated in the pre-state)
	path []string
	lo   *CExpr
	hi   *CExpr
	key  string
	text string
	full *CExpr // the whole path expression (for paths that cross a pointer field)
}

func parseModifies(items []string) ([]modItem, error) {
	var out []modItem
	for _, it := range items {
		it = strings.TrimSpace(it)
		switch {
		case it == "alloc" || it == "everything":
			out = append(out, modItem{kind: "alloc", text: it})
		case strings.HasPrefix(it, "map "):
			base, err := parseCExpr(strings.TrimSpace(strings.TrimPrefix(it, "map ")))
			if err != nil {
				return nil, err
			}
			out = append(out, modItem{kind: "map", base: base, text: it})
		case strings.HasPrefix(it, "heap "):
			out = append(out, modItem{kind: "heap", key: strings.TrimSpace(strings.TrimPrefix(it, "heap ")), text: it})
		case strings.HasSuffix(it, "]"):
			lb := strings.LastIndex(it, "[")
			base, err := parseCExpr(it[:lb])
			if err != nil {
				return nil, err
			}
			inner := it[lb+1 : len(it)-1]
			m := modItem{kind: "elems", base: base, text: it}
			if inner != "*" {
				parts := strings.SplitN(inner, ":", 2)
				if len(parts) != 2 {
					return nil, fmt.Errorf("modifies %q: want [*] or [lo:hi]", it)
				}
				if m.lo, err = parseCExpr(parts[0]); err != nil {
					return nil, err
				}
				if m.hi, err = parseCExpr(parts[1]); err != nil {
					return nil, err
				}
			}
			out = append(out, m)
		case strings.HasPrefix(it, "*"):
			base, err := parseCExpr(it[1:])
			if err != nil {
				return nil, err
			}
			out = append(out, modItem{kind: "obj", base: base, text: it})
		default:
			e, err := parseCExpr(it)
			if err != nil {
				return nil, err
			}
			// p.f.g: base is the leftmost identifier
			full := e
			var path []string
			for e.Kind == "field" {
				path = append([]string{e.Str}, path...)
				e = e.X
			}
			if e.Kind != "id" || len(path) == 0 {
				return nil, fmt.Errorf("modifies %q: want p.field", it)
			}
			out = append(out, modItem{kind: "field", base: e, path: path, text: it, full: full})
		}
	}
	return out, nil
}

// license describes, for one heap key, which (ref) or (array id, index) positions may change.
type license struct {
	whole bool
	refs  []*Term   // F-keys: licensed references
	spans []licSpan // E-keys
}
type licSpan struct {
	id, lo, hi *Term // absolute index range [lo,hi) within array id; lo == nil: the whole row
}

func (sp licSpan) covers(r, j *Term) *Term {
	if sp.lo == nil {
		return Eq(r, sp.id)
	}
	return And(Eq(r, sp.id), Le(sp.lo, j), Lt(j, sp.hi))
}

// modLicenses evaluates the modifies clause of fn in the given (pre-)state.
func (x *Exec) modLicenses(fc *FuncContract, fn *ssa.Function, vars map[string]SV, pre HeapView) (map[string]*license, bool) {
	items, err := parseModifies(fc.Modifies)
	if err != nil {
		x.fail("modifies of %s: %v", fc.Key, err)
	}
	lic := map[string]*license{}
	get := func(k string) *license {
		if lic[k] == nil {
			lic[k] = &license{}
		}
		return lic[k]
	}
	allocs := false
	var localMods []*Loc
	x.lastLocalMods = nil
	defer func() { x.lastLocalMods = localMods }()
	env := &CEnv{x: x, vars: vars, cur: pre, qn: &x.qn}
	for _, it := range items {
		switch it.kind {
		case "alloc":
			allocs = true
		case "heap":
			get(it.key).whole = true
		case "field", "obj":
			p := env.eval(it.base)
			if p.K == KRef && p.Loc != nil && p.Loc.Ref != nil && it.kind == "obj" {
				// interior pointer &obj.f: the licensed cell is that field of obj
				for _, k := range x.keysOfObject(p.Loc.RefTy, p.Loc.Path) {
					get(k).refs = append(get(k).refs, p.Loc.Ref)
				}
				continue
			}
			if p.K == KRef && p.Loc != nil && p.Loc.Alloc != nil && it.kind == "obj" {
				localMods = append(localMods, p.Loc)
				continue
			}
			if p.K != KRef || p.T == nil {
				x.fail("modifies %s: base is not a heap pointer", it.text)
			}
			pt, ok := p.Ty.Underlying().(*types.Pointer)
			if !ok {
				x.fail("modifies %s: base is not a pointer", it.text)
			}
			var path []int
			t := pt.Elem()
			for pi, name := range it.path {
				if pp, isPtr := t.Underlying().(*types.Pointer); isPtr && it.full != nil {
					// the path crosses a pointer field: the object written is the one that pointer refers to (in the pre-state)
					pre := it.full
					for k := len(it.path) - 1; k >= pi; k-- {
						pre = pre.X
					}
					p = env.eval(pre)
					if p.K != KRef || p.T == nil {
						x.fail("modifies %s: %s is not a heap pointer", it.text, pre)
					}
					pt = pp
					t = pp.Elem()
					path = nil
				}
				stt, ok := t.Underlying().(*types.Struct)
				if !ok {
					x.fail("modifies %s: %s is not a struct", it.text, t)
				}
				found := false
				for i := 0; i < stt.NumFields(); i++ {
					if stt.Field(i).Name() == name {
						path = append(path, i)
						t = stt.Field(i).Type()
						found = true
						break
					}
				}
				if !found {
					x.fail("modifies %s: no field %s", it.text, name)
				}
			}
			for _, k := range x.keysOfObject(pt.Elem(), path) {
				get(k).refs = append(get(k).refs, p.T)
			}
		case "map":
			mv := env.eval(it.base)
			if mv.K != KRef || mv.T == nil || mapTypeOf(mv.Ty) == nil {
				x.fail("modifies %s: not a map", it.text)
			}
			x.registerMapKeys(mv.Ty)
			for _, k := range mapHeapKeys(mv.Ty) {
				get(k).spans = append(get(k).spans, licSpan{id: mv.T})
			}
		case "elems":
			s := env.eval(it.base)
			if s.K != KSeq {
				x.fail("modifies %s: not a slice", it.text)
			}
			lo, hi := IntC(0), s.Len
			if it.lo != nil {
				lo = env.evalInt(it.lo)
				hi = env.evalInt(it.hi)
			}
			et := elemTypeOf(s.Ty)
			if et == nil {
				x.fail("modifies %s: unknown element type", it.text)
			}
			for _, lf := range leavesOf(et) {
				k := elemKeyBase(et) + lf.suffix
				get(k).spans = append(get(k).spans, licSpan{id: s.Id, lo: Add(s.Off, lo), hi: Add(s.Off, hi)})
			}
		}
	}
	return lic, allocs
}

func (x *Exec) havocModifies(st *State, callee *ssa.Function, fc *FuncContract, vars map[string]SV, pre HeapView) {
	lic, allocs := x.modLicenses(fc, callee, vars, pre)
	for _, l := range x.lastLocalMods {
		// the callee may assign the caller's local variable through the pointer
		t := typeAt(l.Alloc.Type().(*types.Pointer).Elem(), l.Path)
		x.store(st, l, x.freshOf(st, t, "via."+l.Alloc.Comment))
	}
	preWM := st.wm
	if allocs {
		nw := Var(x.freshName("WM"), SInt)
		st.assume(Le(st.wm, nw))
		st.wm = nw
	}
	var keys []string
	for k := range lic {
		keys = append(keys, k)
	}
	sort.Strings(keys)
	for _, k := range keys {
		l := lic[k]
		srt, ok := x.keySort[k]
		if !ok {
			srt = x.sortOfKey(k)
			x.registerKey(k, srt)
		}
		old := x.heapGet(st.heap, k, srt)
		nh := Var(x.freshName("H."+k), srt)
		st.heap[k] = nh
		if l.whole {
			continue
		}
		r := Var(x.freshName("r!fr"), SInt)
		if len(l.spans) == 0 {
			var isLic []*Term
			for _, p := range l.refs {
				isLic = append(isLic, Eq(r, p))
			}
			st.assume(Forall([]*Term{r}, Implies(And(Lt(r, preWM), Not(Or(isLic...))), Eq(Select(nh, r), Select(old, r)))))
		} else {
			j := Var(x.freshName("j!fr"), SInt)
			var isLic []*Term
			for _, sp := range l.spans {
				isLic = append(isLic, sp.covers(r, j))
			}
			st.assume(Forall([]*Term{r}, Implies(Lt(r, preWM), Forall([]*Term{j}, Implies(Not(Or(isLic...)),
				Eq(Select(Select(nh, r), j), Select(Select(old, r), j)))))))
		}
	}
	if allocs {
		// heaps not named may still gain fresh objects; nothing to do: callers never hold references >= preWM
	}
}

// frameFormula: every position of heap key k that the license does not name is unchanged.
func (x *Exec) frameFormula(k string, cur, init *Term, l *license, entryWM *Term) *Term {
	r := Var(x.freshName("r!fo"), SInt)
	twoLevel := cur.Sort == SArr2 || cur.Sort == SAr2B
	if !twoLevel {
		var isLic []*Term
		if l != nil {
			for _, p := range l.refs {
				isLic = append(isLic, Eq(r, p))
			}
		}
		return Forall([]*Term{r}, Implies(And(Le(IntC(0), r), Lt(r, entryWM), Not(Or(isLic...))), Eq(Select(cur, r), Select(init, r))))
	}
	j := Var(x.freshName("j!fo"), SInt)
	var isLic []*Term
	if l != nil {
		for _, sp := range l.spans {
			isLic = append(isLic, sp.covers(r, j))
		}
	}
	return Forall([]*Term{r}, Implies(And(Le(IntC(0), r), Lt(r, entryWM)),
		Forall([]*Term{j}, Implies(Not(Or(isLic...)), Eq(Select(Select(cur, r), j), Select(Select(init, r), j))))))
}

// frameObligation: key k changed on this path; prove the change is licensed.
func (x *Exec) frameObligation(st *State, k string, cur, init *Term, allowed map[string]*license) {
	l := allowed[k]
	if l != nil && l.whole {
		return
	}
	if k == "S:byte" {
		// string storage is only ever extended at fresh ids (conversions/concatenations)
	}
	goal := x.frameFormula(k, cur, init, l, st.entryWM)
	x.assert(st, "frame:"+k, goal, "writes to "+k+" are licensed by the modifies clause", token.NoPos)
}
