#!/bin/bash
# Re-runs every registered quick check on the unchanged tree (rewrites /verif/evidence/*.json) and reports alarms.
cd /verif
if [ -n "$(git -C /repo status --porcelain)" ]; then echo "refusing: /repo has uncommitted changes"; exit 2; fi
rc=0
for p in $(python3 -c "import json;print(' '.join(c['property_id'] for c in json.load(open('/verif/MANIFEST.json'))['checks']))"); do
  out=$(/verif/bin/govc check --property $p --tier ${1:-quick} 2>&1 | grep -E "^(OK|VIOLATION|KNOWN-FINDING|SELFTEST-PROBLEM)" | cut -c1-220)
  echo "$out"
  echo "$out" | grep -q "^VIOLATION\|^SELFTEST-PROBLEM" && rc=1
done
exit $rc
